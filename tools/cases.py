#!/usr/bin/env python3
"""Extract REPLAY lines from a TLC output file into an ndjson cases file: cases.py <tlc.out> <cases.ndjson>"""
import sys
with open(sys.argv[1], errors='replace') as f, open(sys.argv[2], 'w') as o:
    for l in f:
        l = l.rstrip('\n')
        if l.startswith('"REPLAY '):
            s = l[1:-1].replace('\\"', '"').replace('\\\\', '\\')
            o.write(s[len('REPLAY '):] + '\n')
