#!/usr/bin/env python3
"""Regenerates MANIFEST.json from bin/props.py (claimed properties) and tools/manifest_meta.json."""
import json, os, sys
ROOT = os.path.dirname(os.path.dirname(os.path.abspath(__file__)))
sys.path.insert(0, os.path.join(ROOT, "bin"))
from props import PROPS
meta = json.load(open(os.path.join(ROOT, "tools", "manifest_meta.json")))
all_ids = [json.loads(l)["id"] for l in open(os.path.join(ROOT, "properties.jsonl"))]
checks = []
for pid in all_ids:
    if pid not in PROPS or pid in meta.get("not_applicable", {}):
        continue
    P = PROPS[pid]
    checks.append({
        "property_id": pid,
        "quick_cmd": "bin/check %s --tier quick" % pid,
        "thorough_cmd": "bin/check %s --tier thorough" % pid,
        "evidence_file": "/verif/evidence/%s.json" % pid,
        "replay_cmd_template": "bin/check %s --replay {path}" % pid,
        "engine": "tla-replay",
        "level_claimed": {"category": P["level"], "text": P["level_text"], "design_ref": P.get("design_ref", "DESIGN.md section 8, " + pid)},
        "level_note": P["level_note"],
        "technique": P["technique"],
    })
na = [{"property_id": pid, "reason": meta["not_applicable"].get(pid, "check not built yet in this round (planned in DESIGN.md section 8)")}
      for pid in all_ids if pid not in PROPS or pid in meta.get("not_applicable", {})]
manifest = {
    "version": 1,
    "setup_cmd": "cd /verif/harness && CARGO_NET_OFFLINE=true cargo build --release --offline",
    "hooks": meta["hooks"],
    "engines": meta["engines"],
    "checks": checks,
    "notes": meta["notes"],
    "not_applicable": na,
}
json.dump(manifest, open(os.path.join(ROOT, "MANIFEST.json"), "w"), indent=1)
print("claimed:", [c["property_id"] for c in checks], "not_applicable:", [n["property_id"] for n in na])
