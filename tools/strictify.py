#!/usr/bin/env python3
"""Wrap every function constructor [x \\in S |-> e] of a TLA+ module in TLCEval(...) so that TLC evaluates tensors
eagerly (TLC's function values are lazy and re-evaluate their body on every application, which is exponential for
chained layer operators).  Idempotent."""
import re, sys
def strictify(src):
    out = []
    i = 0
    n = len(src)
    pat = re.compile(r'\[\s*\w+\s*\\in\b')
    while i < n:
        m = pat.match(src, i)
        if m and not src[max(0, i-8):i].endswith('TLCEval('):
            # find matching bracket
            depth = 0; j = i
            while j < n:
                c = src[j]
                if c == '[': depth += 1
                elif c == ']':
                    depth -= 1
                    if depth == 0: break
                j += 1
            inner = src[i:j+1]
            # only function constructors (contain |-> at depth 1), not [x \in S -> T]
            d = 0; is_fc = False
            for k in range(len(inner)-2):
                if inner[k] == '[': d += 1
                elif inner[k] == ']': d -= 1
                elif d == 1 and inner.startswith('|->', k): is_fc = True; break
            if is_fc:
                body = strictify(inner[1:-1])
                out.append('TLCEval([' + body + '])')
                i = j + 1
                continue
        out.append(src[i]); i += 1
    return ''.join(out)
for f in sys.argv[1:]:
    s = open(f).read()
    head, sep, tail = s.partition('\n')
    t = strictify(s)
    open(f, 'w').write(t)
