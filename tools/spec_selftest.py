#!/usr/bin/env python3
"""Vacuity test of the specification itself: each entry mutates one line of a specification module (a design that
would violate a property) and requires TLC to report an invariant / property violation on the bounded instance.
If TLC still says "No error" the invariant is vacuous for that mutation.  Needs neither /repo nor the harness.

    tools/spec_selftest.py [--only <name>]
"""
import os, re, shutil, subprocess, sys, tempfile

ROOT = os.path.dirname(os.path.dirname(os.path.abspath(__file__)))
TLC_CP = "/opt/veriftools/tla/tla2tools.jar:/opt/veriftools/tla/CommunityModules-deps.jar"

# (name, file to mutate, old, new, MC module, constants, expected violated invariant/property substring)
TRAIN = {"MaxN": 4, "MaxB": 3, "MaxE": 2, "MaxWorkers": 2, "MaxTol": 3, "NVals": 3, "MaxLayers": 2}
M = [
 ("reduce_in_completion_order", "Training.tla",
  "  /\\ LET s == First(P, bi) + red IN",
  "  /\\ LET s == IF red < Len(finished) THEN finished[red + 1] ELSE 0 IN",
  "MC_Training", dict(TRAIN, Mode="schedule"), "ReduceIgnoresSchedule|DescentOK|PrefixOK"),
 ("step_number_is_batch_index", "Training.tla",
  "  /\\ w' = Append(w, [step |-> epoch, grads |-> accG])",
  "  /\\ w' = Append(w, [step |-> bi, grads |-> accG])",
  "MC_Training", dict(TRAIN, Mode="schedule"), "DescentOK|PrefixOK"),
 ("last_batch_dropped", "Training.tla",
  "NB(p)        == (p.n + p.b - 1) \\div p.b",
  "NB(p)        == IF p.n \\div p.b = 0 THEN 1 ELSE p.n \\div p.b",
  "MC_Training", dict(TRAIN, Mode="schedule"), "ExactlyOnce|DescentOK|TypeOK"),
 ("validate_keeps_flags", "Training.tla",
  "  /\\ flags' = AllOff(P)\n  /\\ vpend' = 1..NChunks(P) /\\ vseen' = {}",
  "  /\\ flags' = [i \\in 1..Len(flags) |-> IF i = 1 THEN FALSE ELSE flags[i]]\n  /\\ vpend' = 1..NChunks(P) /\\ vseen' = {}",
  "MC_Training", dict(TRAIN, Mode="flags"), "NoLeak"),
 ("learn_end_keeps_flags", "Training.tla",
  "  /\\ pc = \"end\"\n  /\\ flags' = AllOff(P)",
  "  /\\ pc = \"end\"\n  /\\ flags' = flags",
  "MC_Training", dict(TRAIN, Mode="flags"), "NoLeak"),
 ("stop_on_non_strict_increase", "Training.tla",
  "Increasing(h, tol) == \\A i \\in (Len(h) - tol + 1)..(Len(h) - 1) : i >= 1 /\\ h[i] < h[i + 1]\nStopNow ==",
  "Increasing(h, tol) == \\A i \\in (Len(h) - tol + 1)..(Len(h) - 1) : i >= 1 /\\ h[i] < h[i + 1]\nLoose(h, tol) == \\A i \\in (Len(h) - tol + 1)..(Len(h) - 1) : i >= 1 /\\ h[i] <= h[i + 1]\nStopNow0 ==",
  "MC_Training", dict(TRAIN, Mode="earlystop", MaxE=5), None),   # placeholder, replaced below
 ("reshape_column_major", "Tensor.tla",
  "Unflat3(v, c, h, w) ==\n  TLCEval([i \\in 1..c |-> TLCEval([j \\in 1..h |-> TLCEval([k \\in 1..w |-> v[((i-1)*h + (j-1))*w + k]])])])",
  "Unflat3(v, c, h, w) ==\n  TLCEval([i \\in 1..c |-> TLCEval([j \\in 1..h |-> TLCEval([k \\in 1..w |-> v[((i-1)*w + (k-1))*h + j]])])])",
  "MC_C14", {"MaxDim": 3, "MaxCount": 8, "Depth": 2, "WithViews": "TRUE"}, "RowMajorPreserved|RoundTrip"),
 ("conv_backward_swaps_stride_and_dilation", "Layers.tla",
  "TapW(c, o, b) == (o - 1)*c.sw + (b - 1)*c.dw + 1",
  "TapW(c, o, b) == (o - 1)*c.sw + (b - 1)*c.dw + 1\nTapWbad(c, o, b) == (o - 1)*c.dw + (b - 1)*c.sw + 1",
  "MC_Layers", {"Kinds": '{"conv"}', "MaxHW": 4, "Stride": 97, "Pick": 1, "DataSeeds": "{1}", "CheckFD": "TRUE"}, None),
 ("feedback_recouples_weights_only", "FeedbackSM.tla",
  "        /\\ bias'   = [c \\in 1..loops |-> Couple(acc, ub)]",
  "        /\\ bias'   = ub",
  "MC_C10", {"MaxLoops": 3, "MaxSteps": 2, "Blocks": "{1}", "Optimizers": '{"sgd"}', "Batches": "{1}"}, "AllCopiesEqual"),
 ("skip_gradient_forgets_second_target", "Network.tla",
  "        skips == {p \\in net.connect : p[2] = i /\\ p[1] # i}",
  "        skips == IF {p \\in net.connect : p[2] = i /\\ p[1] # i} = {} THEN {} ELSE {CHOOSE p \\in net.connect : p[2] = i /\\ p[1] # i}",
  "MC_Flow", {"Mode": "skip", "NetSel": "{1}", "MaxConnects": 2, "MaxIter": 1, "MaxLoops": 1, "DataSeeds": "{1, 2}", "CheckFD": "TRUE"}, "SkipGradIsDerivative"),
 ("shuffle_index_not_clamped", "Random.tla",
  "Index(n, len) == IF IndexRaw(n, len) < len THEN IndexRaw(n, len) ELSE len - 1",
  "Index(n, len) == IndexRaw(n, len)",
  "MC_C18", {"Band": 8, "GridStep": 268435456, "MaxLen": 4, "ShuffleLen": "{2}"}, "IndexInBounds"),
 ("optimizer_bias_slot_reads_weight_gradient", "mc/MC_C03.tla",
  "  /\\ LET env0 == deps[s] @@ (\"g\" :> {\"g\" \\o ToString(s)})",
  "  /\\ LET env0 == deps[s] @@ (\"g\" :> {\"g\" \\o ToString(IF s = 2 THEN 1 ELSE s)})",
  "MC_C03", {"MaxSteps": 2, "MaxRounds": 2, "Slots": "{1, 2}", "LongRuns": "{}"}, "SlotIsolation"),
]
# two entries need a second edit (use the mutated helper)
SECOND = {
 "stop_on_non_strict_increase": ("Training.tla",
   "StopNow0 == P.hasval /\\ epoch > P.tol /\\ Len(valLoss) >= P.tol /\\ Increasing(valLoss, P.tol)",
   "StopNow == P.hasval /\\ epoch > P.tol /\\ Len(valLoss) >= P.tol /\\ Loose(valLoss, P.tol)", "HistoriesOK"),
 "conv_backward_swaps_stride_and_dilation": ("Layers.tla",
   "            d[f][t[1]][t[2]] * XP(x, c, ch, TapH(c, t[1], a), TapW(c, t[2], b))",
   "            d[f][t[1]][t[2]] * XP(x, c, ch, TapH(c, t[1], a), TapWbad(c, t[2], b))", "GradIsDerivative"),
}

def fill_cfg(work, module, consts):
    t = open(os.path.join(ROOT, "spec", "mc", module + ".cfg.tmpl")).read()
    for k, v in consts.items():
        t = t.replace("%" + k + "%", str(v))
    assert not re.findall(r"%\w+%", t), (module, re.findall(r"%\w+%", t))
    open(os.path.join(work, module + ".cfg"), "w").write(t)

def main():
    only = sys.argv[2] if len(sys.argv) > 2 and sys.argv[1] == "--only" else None
    bad = 0
    for name, f, old, new, module, consts, expect in M:
        if only and only not in name:
            continue
        work = tempfile.mkdtemp(prefix="specmut_", dir=os.path.join(ROOT, "work") if os.path.isdir(os.path.join(ROOT, "work")) else None)
        for d in ("spec", "spec/mc"):
            for x in os.listdir(os.path.join(ROOT, d)):
                if x.endswith(".tla"):
                    shutil.copy(os.path.join(ROOT, d, x), os.path.join(work, x))
        target = os.path.join(work, os.path.basename(f))
        s = open(target).read()
        assert s.count(old) == 1, (name, "anchor", s.count(old))
        s = s.replace(old, new)
        if name in SECOND:
            f2, old2, new2, expect = SECOND[name]
            assert os.path.basename(f2) == os.path.basename(f)
            assert s.count(old2) == 1, (name, "second anchor", s.count(old2))
            s = s.replace(old2, new2)
        open(target, "w").write(s)
        fill_cfg(work, module, consts)
        p = subprocess.run(["java", "-XX:+UseParallelGC", "-Xss512m", "-cp", TLC_CP, "tlc2.TLC", "-workers", "8", "-metadir",
                            os.path.join(work, "md"), "-noGenerateSpecTE", "-config", module + ".cfg", module + ".tla"],
                           cwd=work, stdout=subprocess.PIPE, stderr=subprocess.STDOUT, timeout=900)
        text = "\n".join(l for l in p.stdout.decode(errors="replace").splitlines() if not l.startswith('"REPLAY'))
        m = re.search(r"Error: (Invariant|Action property|Temporal properties|Property) ?(\w*)[^\n]*", text)
        viol = re.findall(r"(?:Invariant|property) (\w+) is violated", text)
        ok = bool(viol) and (expect is None or any(re.fullmatch(expect, v) for v in viol))
        print("%-45s %-12s %s" % (name, module, "violated: " + ",".join(viol) if viol else "NOT DETECTED: " + (m.group(0) if m else text[-200:].replace("\n", " "))))
        bad += 0 if ok else 1
        shutil.rmtree(work, ignore_errors=True)
    print("%d specification mutations not detected" % bad)
    return 1 if bad else 0

if __name__ == "__main__":
    sys.exit(main())
