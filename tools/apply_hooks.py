#!/usr/bin/env python3
"""One-off helper used to insert the add-only `verif` hook lines into /repo (kept for reference)."""
import sys
root = sys.argv[1] if len(sys.argv) > 1 else '/repo'
def rw(path, f):
    p = root + '/' + path
    s = open(p).read(); s2 = f(s); open(p, 'w').write(s2)
def ins_after(s, anchor, text, count=1):
    assert s.count(anchor)==count, (anchor, s.count(anchor))
    return s.replace(anchor, anchor+text)
def ins_before(s, anchor, text, count=1):
    assert s.count(anchor)==count, (anchor, s.count(anchor))
    return s.replace(anchor, text+anchor)

rw('Cargo.toml', lambda s: ins_after(s, '[dependencies]\nrayon = "1.10"\nplotters = "0.3.6"\n', '\n[features]\n# Verification hooks (see src/verif.rs). Off by default.\nverif = []\n'))
rw('src/lib.rs', lambda s: ins_after(s, 'pub mod plot;\n', '\n#[cfg(feature = "verif")]\npub mod verif;\n'))

def net(s):
    s=ins_before(s, "        let mut train_loss = Vec::new();\n        let mut val_loss = Vec::new();",
'''        #[cfg(feature = "verif")]
        crate::verif::emit(
            "LearnBegin",
            &format!(
                "\\"n\\":{},\\"batch\\":{},\\"epochs\\":{},\\"has_val\\":{},\\"tol\\":{},\\"flags\\":{}",
                inputs.len(),
                batch,
                epochs,
                validation.is_some(),
                threshold.unwrap_or(0),
                crate::verif::json_flags(&crate::verif::flags(&self.layers))
            ),
        );

''')
    s=ins_after(s, "            for batch in batches.iter() {\n",
'''                #[cfg(feature = "verif")]
                crate::verif::emit(
                    "Batch",
                    &format!(
                        "\\"epoch\\":{},\\"len\\":{},\\"flags\\":{}",
                        epoch,
                        batch.0.len(),
                        crate::verif::json_flags(&crate::verif::flags(&self.layers))
                    ),
                );
''')
    s=ins_before(s, "                        let (preactivated, activated, maxpools, feedbacks) = self.forward(input);\n",
'''                        #[cfg(feature = "verif")]
                        crate::verif::jitter(crate::verif::sample_index(input));
''')
    s=ins_before(s, "                        (wg, bg, loss)\n",
'''                        #[cfg(feature = "verif")]
                        crate::verif::emit(
                            "SampleDone",
                            &format!(
                                "\\"epoch\\":{},\\"sample\\":{},\\"thread\\":{},\\"loss_bits\\":{}",
                                epoch,
                                crate::verif::sample_index(input),
                                rayon::current_thread_index().map(|t| t as i64).unwrap_or(-1),
                                crate::verif::bits(loss)
                            ),
                        );

''')
    s=ins_after(s, "                for (wg, wb, loss) in results {\n",
'''                    #[cfg(feature = "verif")]
                    crate::verif::emit(
                        "Reduce",
                        &format!("\\"epoch\\":{},\\"loss_bits\\":{}", epoch, crate::verif::bits(loss)),
                    );
''')
    s=ins_after(s, "            train_loss.push(loss_epoch / batches.len() as f32);\n",
'''            #[cfg(feature = "verif")]
            crate::verif::emit(
                "EpochEnd",
                &format!(
                    "\\"epoch\\":{},\\"train_bits\\":{}",
                    epoch,
                    crate::verif::bits(*train_loss.last().unwrap())
                ),
            );
''')
    s=ins_after(s, "                let (_val_loss, _val_acc) = self.validate(val_inputs, val_targets, 1e-6);\n",
'''                #[cfg(feature = "verif")]
                let _val_loss = crate::verif::script_val_loss(epoch, _val_loss);
''')
    s=ins_after(s, "                val_acc.push(_val_acc);\n",
'''                #[cfg(feature = "verif")]
                crate::verif::emit(
                    "ValPush",
                    &format!(
                        "\\"epoch\\":{},\\"loss_bits\\":{},\\"acc_bits\\":{},\\"len_val\\":{},\\"len_acc\\":{}",
                        epoch,
                        crate::verif::bits(*val_loss.last().unwrap()),
                        crate::verif::bits(*val_acc.last().unwrap()),
                        val_loss.len(),
                        val_acc.len()
                    ),
                );
''')
    s=ins_after(s, '''                        println!("Validation loss has increased for the last {} epochs.\\nStopping training (at epoch {}).", threshold, epoch);\n''',
'''                        #[cfg(feature = "verif")]
                        crate::verif::emit("Stop", &format!("\\"epoch\\":{}", epoch));
''')
    s=ins_before(s, "        (train_loss, val_loss, val_acc)\n    }\n",
'''        #[cfg(feature = "verif")]
        crate::verif::emit(
            "LearnEnd",
            &format!(
                "\\"flags\\":{},\\"len_train\\":{},\\"len_val\\":{},\\"len_acc\\":{}",
                crate::verif::json_flags(&crate::verif::flags(&self.layers)),
                train_loss.len(),
                val_loss.len(),
                val_acc.len()
            ),
        );

''')
    s=ins_before(s, "        self.layers\n            .iter_mut()\n            .rev()\n            .enumerate()\n            .for_each(|(i, layer)| match layer {\n                Layer::Dense(layer) => {\n                    self.optimizer.update(",
'''        #[cfg(feature = "verif")]
        crate::verif::emit("Update", &format!("\\"stepnr\\":{}", stepnr));

''')
    s=ins_before(s, "        let mut training: bool = false;\n        for layer in &mut self.layers {",
'''        #[cfg(feature = "verif")]
        let verif_flags_before = crate::verif::flags(&self.layers);

''')
    s=ins_before(s, "        let results: Vec<_> = inputs\n            .par_chunks(_CHUNKS)\n            .zip(targets.par_chunks(_CHUNKS))",
'''        #[cfg(feature = "verif")]
        crate::verif::emit(
            "ValidateEnter",
            &format!(
                "\\"n\\":{},\\"flags_before\\":{},\\"flags_during\\":{}",
                inputs.len(),
                crate::verif::json_flags(&verif_flags_before),
                crate::verif::json_flags(&crate::verif::flags(&self.layers))
            ),
        );

''')
    s=ins_before(s, "        let (loss, acc): (Vec<_>, Vec<_>) = results.into_iter().unzip();\n",
'''        #[cfg(feature = "verif")]
        crate::verif::emit(
            "ValidateExit",
            &format!(
                "\\"flags_after\\":{}",
                crate::verif::json_flags(&crate::verif::flags(&self.layers))
            ),
        );

''')
    s=ins_before(s, "#[cfg(test)]\nmod tests {\n    use super::*;\n    use crate::assert_eq_data;\n",
'''#[cfg(feature = "verif")]
impl Network {
    /// Public wrapper around the private `backward` (verification hook).
    pub fn verif_backward(
        &self,
        gradient: tensor::Tensor,
        preactivated: &Vec<tensor::Tensor>,
        activated: &Vec<tensor::Tensor>,
        maxpools: &Vec<Option<tensor::Tensor>>,
        feedbacks: Vec<Vec<tensor::Tensor>>,
    ) -> (Vec<tensor::Tensor>, Vec<Option<tensor::Tensor>>) {
        self.backward(gradient, preactivated, activated, maxpools, feedbacks)
    }

    /// Public wrapper around the private `update` (verification hook).
    pub fn verif_update(
        &mut self,
        stepnr: i32,
        weight_gradients: Vec<tensor::Tensor>,
        bias_gradients: Vec<Option<tensor::Tensor>>,
    ) {
        self.update(stepnr, weight_gradients, bias_gradients)
    }
}

''')
    return s
rw('src/network.rs', net)

def opt(s):
    a="        gradients: &mut tensor::Tensor,\n    ) {\n        match self {\n            Optimizer::SGD(sgd) => sgd.update(values, gradients),"
    assert s.count(a)==1
    return s.replace(a,"        gradients: &mut tensor::Tensor,\n    ) {\n        #[cfg(feature = \"verif\")]\n        crate::verif::emit(\n            \"OptUpdate\",\n            &format!(\n                \"\\\"layer\\\":{},\\\"filter\\\":{},\\\"bias\\\":{},\\\"stepnr\\\":{}\",\n                layer, filter, bias, stepnr\n            ),\n        );\n        match self {\n            Optimizer::SGD(sgd) => sgd.update(values, gradients),")
rw('src/optimizer.rs', opt)
