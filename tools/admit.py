#!/usr/bin/env python3
"""Admit the mutants a sub-agent left in /tmp/wt/<ID>/MUTANT after re-confirming them in that scratch worktree:
the patch applies to the unchanged tree, the library builds, the 70 baseline tests pass, the demonstration fails
with the change and passes without.  Kept changes go to /verif/seeded/<ID>/<name>/ {patch.diff, demo.rs, meta.json}.
usage: admit.py <ID> [--remove]   (--remove: remove the scratch worktree afterwards)"""
import json, os, shutil, subprocess, sys
pid = sys.argv[1]
prefix = ''
for a in sys.argv[2:]:
    if a.startswith('--prefix='):
        prefix = a.split('=', 1)[1]
WT = '/tmp/wt/' + pid
MUT = WT + '/MUTANT'
def sh(cmd):
    r = subprocess.run(cmd, shell=True, cwd=WT, stdout=subprocess.PIPE, stderr=subprocess.STDOUT)
    return r.returncode, r.stdout.decode(errors='replace')
meta_all = {}
try:
    meta_all = json.load(open(MUT + '/meta.json'))
except Exception as e:
    print('no meta.json:', e)
os.makedirs(WT + '/tests', exist_ok=True)
for name in ('a', 'b', 'c'):
    diff = '%s/%s.diff' % (MUT, name)
    demo = '%s/%s_demo.rs' % (MUT, name)
    if not (os.path.exists(diff) and os.path.exists(demo)):
        continue
    sh('git checkout -- src Cargo.toml')
    shutil.copy(demo, WT + '/tests/seeded_demo.rs')
    rc0, out0 = sh('cargo test --offline --features verif --test seeded_demo 2>&1 | tail -5')
    passes_without = 'test result: ok' in out0
    rc, out = sh('git apply --whitespace=nowarn %s' % diff)
    if rc != 0:
        print(pid, name, 'REJECTED: patch does not apply', out[-300:]); continue
    rc1, out1 = sh('cargo test --lib --offline 2>&1 | tail -3')
    suite_ok = 'test result: ok. 70 passed' in out1
    rc2, out2 = sh('cargo test --offline --features verif --test seeded_demo 2>&1 | tail -8')
    fails_with = 'test result: FAILED' in out2 or 'error: test failed' in out2
    touched = subprocess.run('git diff --stat', shell=True, cwd=WT, stdout=subprocess.PIPE).stdout.decode()
    sh('git checkout -- src Cargo.toml')
    ok = passes_without and suite_ok and fails_with and 'verif.rs' not in touched
    print(pid, name, 'KEPT' if ok else 'REJECTED', dict(passes_without=passes_without, suite_ok=suite_ok, fails_with=fails_with))
    if not ok:
        print(out0[-400:], out1[-300:], out2[-400:]); continue
    dst = '/verif/seeded/%s/%s%s' % (pid, prefix, name)
    os.makedirs(dst, exist_ok=True)
    shutil.copy(diff, dst + '/patch.diff')
    shutil.copy(demo, dst + '/demo.rs')
    m = meta_all.get(name, {}) if isinstance(meta_all, dict) else {}
    json.dump({'property': pid, 'summary': m.get('summary', ''), 'needs': m.get('needs', ''),
               'confirmed': {'applies_to_unchanged_tree': True, 'baseline_70_tests_pass_with_change': True,
                             'demonstration_fails_with_change': True, 'demonstration_passes_without': True},
               'commands': ['git apply patch.diff', 'cargo test --lib --offline',
                            'cp demo.rs tests/seeded_demo.rs && cargo test --offline --features verif --test seeded_demo'],
               'agent_commands': m.get('commands', [])}, open(dst + '/meta.json', 'w'), indent=1)
os.remove(WT + '/tests/seeded_demo.rs') if os.path.exists(WT + '/tests/seeded_demo.rs') else None
if '--remove' in sys.argv:
    subprocess.run('git -C /repo worktree remove --force %s' % WT, shell=True)
    print('worktree removed')
