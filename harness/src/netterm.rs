//! Group "netterm" (C01 / C02 / C11 at network level with smooth and leaky activations, term mode).
//!
//! A case carries the unrolled forward program and the chain-rule gradient program of SymNet.tla.  The harness
//! builds the network through the public builder (feedback blocks through `Network::feedback`), installs seeded
//! float parameters (the copies of a block layer share theirs), and compares
//!   * every top-level layer's output of `Network::forward` with the forward program (double precision),
//!   * every (unrolled) layer's weight / bias / kernel gradient of `Network::backward` with the gradient program.
//! Before it is used as an oracle the gradient program is checked against central differences of the forward
//! program itself (double precision): a round where they disagree sits next to a ReLU / leaky kink and is skipped.

use crate::netcase::{desc_from_cfg, install_params};
use crate::nets;
use crate::terms::{eval64, Env64};
use crate::util::*;
use neurons::network::Network;
use neurons::tensor::Tensor;
use neurons::verif;
use serde_json::{json, Value};

fn with_act(l: &Value) -> Value {
    let mut cfg = l["cfg"].clone();
    cfg["act"] = l["act"].clone();
    cfg
}

fn item_desc(it: &Value) -> Value {
    if str_of(it, "kind") == "fb" {
        let inner: Vec<Value> = it["inner"].as_array().unwrap().iter().map(|l| desc_from_cfg(str_of(&l["cfg"], "kind"), &with_act(l))).collect();
        json!({"kind": "feedback", "layers": inner, "loops": it["loops"], "inskips": false, "outskips": false, "acc": "mean"})
    } else {
        desc_from_cfg(str_of(&it["l"]["cfg"], "kind"), &with_act(&it["l"]))
    }
}

/// Parameters of one layer in the layout of SymLayers.tla (dense: W row-major then the bias; kernels row-major).
fn params_of(cfg: &Value, ks: &[f32]) -> Value {
    let u = |k: &str| cfg[k].as_u64().unwrap() as usize;
    if str_of(cfg, "kind") == "pool" {
        return json!({});
    }
    if str_of(cfg, "kind") == "dense" {
        let (n_in, n_out) = (u("c"), u("f"));
        let w: Vec<Vec<f32>> = (0..n_out).map(|i| ks[i * n_in..(i + 1) * n_in].to_vec()).collect();
        let b: Vec<f32> = if bool_of(cfg, "bias") { ks[n_out * n_in..].to_vec() } else { vec![0.0; n_out] };
        json!({"W": w, "b": b})
    } else {
        let (f, c, kh, kw) = (u("f"), u("c"), u("kh"), u("kw"));
        let mut it = ks.iter();
        let k: Vec<Vec<Vec<Vec<f32>>>> = (0..f)
            .map(|_| (0..c).map(|_| (0..kh).map(|_| (0..kw).map(|_| *it.next().unwrap()).collect()).collect()).collect())
            .collect();
        json!({"K": k})
    }
}

fn forward_from(program: &[Value], from: usize, env: &mut Env64) {
    for u in from..program.len() {
        // the input the layer processes (its ordinary input, plus the processed input of a skip source)
        for (k, t) in program[u]["inp"].as_array().unwrap().iter().enumerate() {
            let v = eval64(t, env);
            env.insert(format!("i{}_{}", u + 1, k + 1), v);
        }
        let fwd = program[u]["fwd"].as_array().unwrap();
        for (n, t) in fwd.iter().enumerate() {
            let v = eval64(t, env);
            env.insert(format!("a{}_{}", u + 1, n + 1), v);
        }
    }
}

fn objective(program: &[Value], env: &Env64, gs: &[f32]) -> f64 {
    let last = program.len();
    gs.iter().enumerate().map(|(n, g)| *g as f64 * env[&format!("a{}_{}", last, n + 1)]).sum()
}

pub fn replay_netterm(case: &Value, rep: &mut Report, rng: &mut Rng) {
    let items: Vec<Value> = case["items"].as_array().unwrap().clone();
    let program: Vec<Value> = case["program"].as_array().unwrap().clone();
    let id = format!("netterm:net{}:acts{}:loops{}", case["net"], case["acts"], case["loops"]);
    let has_block = items.iter().any(|it| str_of(it, "kind") == "fb");
    let has_skips = case["connect"].as_array().map(|a| !a.is_empty()).unwrap_or(false);
    rep.nontrivial(id.clone());
    rep.checks += 1;
    let built = guarded(|| {
        let mut net = Network::new(shape_from(&case["input"]));
        // under the second activation assignment every plain layer is created Linear and given its activation
        // afterwards with set_activation: what forward and backward use is the activation the layer has NOW
        let switched = case["acts"].as_u64() == Some(2);
        for it in items.iter() {
            let mut d = item_desc(it);
            if switched && str_of(it, "kind") != "fb" && d["kind"] != "pool" {
                d["act"] = json!("linear");
            }
            nets::add_layer(&mut net, &d);
        }
        if switched {
            for (i, it) in items.iter().enumerate() {
                if str_of(it, "kind") != "fb" && str_of(&it["l"]["cfg"], "kind") != "pool" {
                    net.set_activation(i, crate::layers::activation(str_of(&it["l"], "act")));
                }
            }
        }
        // additive skip connections <<target, source>> (1-based item indices)
        net.set_accumulation(nets::accumulation("add"), nets::accumulation("mean"));
        for c in case["connect"].as_array().map(|a| a.as_slice()).unwrap_or(&[]) {
            net.connect(c[1].as_u64().unwrap() as usize - 1, c[0].as_u64().unwrap() as usize - 1);
        }
        net
    });
    let mut net = match built {
        Ok(n) => n,
        Err(e) => {
            rep.mismatch(if has_block { "C11" } else { "C02" }, "term_mode_network_rejected_by_builder", &id, json!({"panic": e}), case);
            return;
        }
    };
    // unrolled index (0-based) of the first layer of every top-level item, and the number of unrolled layers it has
    let mut first: Vec<usize> = Vec::new();
    let mut count: Vec<usize> = Vec::new();
    let mut at = 0usize;
    for it in items.iter() {
        let k = if str_of(it, "kind") == "fb" { it["inner"].as_array().unwrap().len() * usize_of(it, "loops") } else { 1 };
        first.push(at);
        count.push(k);
        at += k;
    }
    assert_eq!(at, program.len(), "harness: unrolled program length");
    let n_in = usize_of(&program[0], "nx");
    let n_out = usize_of(&program[program.len() - 1], "no");
    let input_shape = usizes(&case["input"]);
    for round in 0..3 {
        // ---- data: one draw per parameter group, shared by the copies ----
        let mut groups: std::collections::HashMap<u64, Vec<f32>> = Default::default();
        let mut env = Env64::new();
        for (u, l) in program.iter().enumerate() {
            let g = l["group"].as_u64().unwrap();
            let nk = usize_of(l, "nk");
            let ks = groups.entry(g).or_insert_with(|| (0..nk).map(|_| rng.unit() * 2.0 - 1.0).collect()).clone();
            for (j, v) in ks.iter().enumerate() {
                env.insert(format!("k{}_{}", u + 1, j + 1), *v as f64);
            }
        }
        let xs: Vec<f32> = (0..n_in).map(|_| rng.unit() * 3.0 - 1.5).collect();
        let gs: Vec<f32> = (0..n_out).map(|_| rng.unit() * 2.0 - 1.0 + 0.05).collect();
        for (i, v) in xs.iter().enumerate() {
            env.insert(format!("a0_{}", i + 1), *v as f64);
        }
        // ---- install (a parameter tensor of another shape than the specification's is a verdict, not a harness error) ----
        let installed = guarded(|| {
        for (i, it) in items.iter().enumerate() {
            if str_of(it, "kind") == "fb" {
                let inner = it["inner"].as_array().unwrap();
                let period = inner.len();
                for (j, layer) in verif::inner_layers_mut(&mut net.layers[i]).iter_mut().enumerate() {
                    let l = &program[first[i] + j];
                    let cfg = &inner[j % period]["cfg"];
                    install_params(layer, str_of(cfg, "kind"), &params_of(cfg, &groups[&l["group"].as_u64().unwrap()]), bool_of(cfg, "bias"));
                }
            } else {
                let l = &program[first[i]];
                let cfg = &it["l"]["cfg"];
                install_params(&mut net.layers[i], str_of(cfg, "kind"), &params_of(cfg, &groups[&l["group"].as_u64().unwrap()]), bool_of(cfg, "bias"));
            }
        }
        });
        if let Err(e) = installed {
            rep.mismatch("C02", "layer_built_with_other_shapes_than_the_size_formulas_give", &id, json!({"panic": e}), case);
            rep.mismatch("C08", "layer_built_with_other_shapes_than_the_size_formulas_give", &id, json!({"panic": e}), case);
            return;
        }
        // ---- the specification's programs, double precision ----
        forward_from(&program, 0, &mut env);
        let last = program.len();
        for (n, g) in gs.iter().enumerate() {
            env.insert(format!("d{}_{}", last, n + 1), *g as f64);
        }
        let mut want_gk: Vec<Vec<f64>> = vec![Vec::new(); last];
        for u in (0..last).rev() {
            want_gk[u] = program[u]["gk"].as_array().unwrap().iter().map(|t| eval64(t, &env)).collect();
            // gradient w.r.t. the processed input: own part plus the parts of the later layers that read it
            let gin: Vec<f64> = program[u]["gin"].as_array().unwrap().iter().map(|t| eval64(t, &env)).collect();
            for (k, v) in gin.iter().enumerate() {
                env.insert(format!("e{}_{}", u + 1, k + 1), *v);
            }
            let prev: Vec<f64> = program[u]["gprev"].as_array().unwrap().iter().map(|t| eval64(t, &env)).collect();
            for (i, v) in prev.iter().enumerate() {
                env.insert(format!("d{}_{}", u, i + 1), *v);
            }
        }
        // the gradient program against central differences of the forward program (kink detector / self-check)
        let mut consistent = true;
        'fd: for u in 0..last {
            for j in 0..want_gk[u].len() {
                let name = format!("k{}_{}", u + 1, j + 1);
                let base = env[&name];
                let h = 1e-6;
                let mut e1 = env.clone();
                e1.insert(name.clone(), base + h);
                forward_from(&program, u, &mut e1);
                let mut e2 = env.clone();
                e2.insert(name.clone(), base - h);
                forward_from(&program, u, &mut e2);
                let fd = (objective(&program, &e1, &gs) - objective(&program, &e2, &gs)) / (2.0 * h);
                if (fd - want_gk[u][j]).abs() > 1e-5 * want_gk[u][j].abs().max(1.0) {
                    consistent = false;
                    break 'fd;
                }
            }
        }
        if !consistent {
            rep.count("netterm_rounds_skipped_next_to_a_kink", 1);
            continue;
        }
        rep.count("netterm_rounds_checked", 1);
        if has_block {
            rep.count("netterm_feedback_rounds_checked", 1);
        }
        // ---- the implementation ----
        let x = if input_shape.len() == 1 { Tensor::single(xs.clone()) } else { crate::tensors::triple_rowmajor(&input_shape, &xs) };
        let out_dims = usizes(&program[last - 1]["out"]);
        rep.checks += 2;
        let res = guarded(|| {
            let (pre, post, max, fbs) = net.forward(&x);
            let top = post.last().unwrap().clone();
            let g = match &top.data {
                neurons::tensor::Data::Single(_) => Tensor::single(gs.clone()),
                _ => crate::tensors::triple_rowmajor(&out_dims, &gs),
            };
            let posts: Vec<Vec<f32>> = post.iter().map(flat).collect();
            let (wg, bg) = net.verif_backward(g, &pre, &post, &max, fbs);
            (posts, wg, bg)
        });
        let (posts, wg, bg) = match res {
            Ok(r) => r,
            Err(e) => {
                rep.mismatch("C01", "term_mode_network_panicked", &id, json!({"panic": e, "round": round}), case);
                return;
            }
        };
        let near = |a: f32, b: f64, tol: f64| (a as f64 - b).abs() <= tol * b.abs().max(1.0);
        // forward: the value passed on after every top-level item
        let mut forward_ok = true;
        for i in 0..items.len() {
            let u_end = first[i] + count[i];
            let no = usize_of(&program[u_end - 1], "no");
            let got = &posts[i + 1];
            // entry i of the vector `forward` returns is the value passed on after item i: when the next item is the target
            // of a skip connection that is the accumulated input it processes
            let next_is_target = case["connect"].as_array().map(|a| a.iter().any(|c| c[0].as_u64() == Some(i as u64 + 2))).unwrap_or(false);
            let name = |n: usize| if next_is_target { format!("i{}_{}", u_end + 1, n + 1) } else { format!("a{}_{}", u_end, n + 1) };
            let bad = got.len() != no || (0..no).any(|n| !near(got[n], env[&name(n)], 1e-5));
            if bad {
                forward_ok = false;
                let want: Vec<f64> = (0..no).map(|n| env[&name(n)]).collect();
                let is_block = str_of(&items[i], "kind") == "fb";
                rep.mismatch(
                    if is_block { "C11" } else { "C02" },
                    if is_block { "feedback_block_output_term_mode" } else { "forward_value_term_mode_network" },
                    &id,
                    json!({"round": round, "item": i, "observed": got, "expected": want}),
                    case,
                );
                if has_skips {
                    rep.mismatch("C16", "skip_network_forward_term_mode", &id, json!({"round": round, "item": i, "observed": got, "expected": want}), case);
                }
                break;
            }
        }
        if !forward_ok {
            continue; // the expected gradients differentiate the specification's forward
        }
        // gradients, per unrolled layer
        let n = items.len();
        'items: for i in 0..n {
            let is_block = str_of(&items[i], "kind") == "fb";
            let (ws, bs): (Vec<Tensor>, Vec<Option<Tensor>>) = if !is_block {
                (vec![wg[n - 1 - i].clone()], vec![bg[n - 1 - i].clone()])
            } else {
                let mut w = wg[n - 1 - i].unnested();
                let mut b = bg[n - 1 - i].as_ref().map(|t| t.unnestedoptional()).unwrap_or_default();
                w.reverse();
                b.reverse();
                (w, b)
            };
            for j in 0..count[i] {
                let u = first[i] + j;
                let mut got: Vec<f32> = ws.get(j).map(flat).unwrap_or_default();
                if bool_of(&program[u]["cfg"], "bias") {
                    if let Some(Some(b)) = bs.get(j) {
                        got.extend(flat(b));
                    }
                }
                let want = &want_gk[u];
                if want.is_empty() {
                    continue; // max-pool: no parameters
                }
                let bad = if got.len() != want.len() { Some(usize::MAX) } else { (0..want.len()).find(|q| !near(got[*q], want[*q], 1e-4)) };
                if let Some(q) = bad {
                    if has_skips {
                        rep.mismatch("C16", "skip_network_gradient_term_mode", &id,
                                     json!({"round": round, "item": i, "kind": program[u]["cfg"]["kind"], "act": program[u]["act"], "observed": got, "derivative": want}), case);
                    }
                    rep.mismatch(
                        "C01",
                        if is_block { "gradient_is_not_derivative_term_mode_network:feedback" } else { "gradient_is_not_derivative_term_mode_network" },
                        &id,
                        json!({"round": round, "item": i, "unrolled_layer": u, "kind": program[u]["cfg"]["kind"], "act": program[u]["act"],
                               "parameter": if q == usize::MAX { json!("gradient length") } else { json!(q) },
                               "observed": got, "derivative": want}),
                        case,
                    );
                    break 'items;
                }
            }
        }
    }
}
