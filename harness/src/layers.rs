//! Group "layer": single-layer cases enumerated by MC_Layers (C01, C02, C08).
//! The specification supplies configuration, integer parameters, input, upstream gradient and the
//! expected pre/post activations and gradients; everything is compared exactly.

use crate::util::*;
use neurons::activation::Activation;
use neurons::tensor::{Shape, Tensor};
use neurons::{convolution, deconvolution, dense, maxpool, verif};
use serde_json::{json, Value};

pub fn activation(name: &str) -> Activation {
    match name {
        "linear" => Activation::Linear,
        "relu" => Activation::ReLU,
        "leaky" => Activation::LeakyReLU,
        "sigmoid" => Activation::Sigmoid,
        "tanh" => Activation::Tanh,
        "softmax" => Activation::Softmax,
        _ => panic!("harness: unknown activation {}", name),
    }
}

pub enum AnyLayer {
    Dense(dense::Dense),
    Conv(convolution::Convolution),
    Deconv(deconvolution::Deconvolution),
    Pool(maxpool::Maxpool),
}

impl AnyLayer {
    /// (pre, post, maxpool indices)
    pub fn forward(&self, x: &Tensor) -> (Tensor, Tensor, Option<Tensor>) {
        match self {
            AnyLayer::Dense(l) => {
                let (a, b) = l.forward(x);
                (a, b, None)
            }
            AnyLayer::Conv(l) => {
                let (a, b) = l.forward(x);
                (a, b, None)
            }
            AnyLayer::Deconv(l) => {
                let (a, b) = l.forward(x);
                (a, b, None)
            }
            AnyLayer::Pool(l) => {
                let (a, b, m) = l.forward(x);
                (a, b, Some(m))
            }
        }
    }
    /// (input gradient, weight gradient, bias gradient)
    pub fn backward(&self, g: &Tensor, x: &Tensor, pre: &Tensor, max: &Option<Tensor>) -> (Tensor, Option<Tensor>, Option<Tensor>) {
        match self {
            AnyLayer::Dense(l) => {
                let (a, b, c) = l.backward(g, x, pre);
                (a, Some(b), c)
            }
            AnyLayer::Conv(l) => {
                let (a, b, c) = l.backward(g, x, pre);
                (a, Some(b), c)
            }
            AnyLayer::Deconv(l) => {
                let (a, b, c) = l.backward(g, x, pre);
                (a, Some(b), c)
            }
            AnyLayer::Pool(l) => (l.backward(g, max.as_ref().unwrap()), None, None),
        }
    }
}

fn cfg_usize(c: &Value, k: &str) -> usize {
    c[k].as_u64().unwrap() as usize
}

pub fn build_layer(c: &Value, params: &Value) -> AnyLayer {
    let kind = str_of(c, "kind");
    let act = activation(str_of(c, "act"));
    let input = Shape::Triple(cfg_usize(c, "c"), cfg_usize(c, "h"), cfg_usize(c, "w"));
    match kind {
        "conv" => {
            let mut l = convolution::Convolution::create(
                input,
                cfg_usize(c, "f"),
                &act,
                (cfg_usize(c, "kh"), cfg_usize(c, "kw")),
                (cfg_usize(c, "sh"), cfg_usize(c, "sw")),
                (cfg_usize(c, "ph"), cfg_usize(c, "pw")),
                (cfg_usize(c, "dh"), cfg_usize(c, "dw")),
                None,
            );
            verif::set_convolution(&mut l, vec4(&params["K"]));
            AnyLayer::Conv(l)
        }
        "deconv" => {
            let mut l = deconvolution::Deconvolution::create(
                input,
                cfg_usize(c, "f"),
                &act,
                (cfg_usize(c, "kh"), cfg_usize(c, "kw")),
                (cfg_usize(c, "sh"), cfg_usize(c, "sw")),
                (cfg_usize(c, "ph"), cfg_usize(c, "pw")),
                None,
            );
            verif::set_deconvolution(&mut l, vec4(&params["K"]));
            AnyLayer::Deconv(l)
        }
        "pool" => AnyLayer::Pool(maxpool::Maxpool::create(
            input,
            (cfg_usize(c, "kh"), cfg_usize(c, "kw")),
            (cfg_usize(c, "sh"), cfg_usize(c, "sw")),
        )),
        "dense" => {
            let bias = bool_of(c, "bias");
            let mut l = dense::Dense::create(
                Shape::Single(cfg_usize(c, "c")),
                Shape::Single(cfg_usize(c, "f")),
                &act,
                bias,
                None,
            );
            verif::set_dense(&mut l, vec2(&params["W"]), if bias { Some(vec1(&params["b"])) } else { None });
            AnyLayer::Dense(l)
        }
        _ => panic!("harness: unknown layer kind {}", kind),
    }
}

fn dot(a: &[f32], b: &[f32]) -> f64 {
    a.iter().zip(b.iter()).map(|(x, y)| (*x as f64) * (*y as f64)).sum()
}

/// Is the segment between the base point and a perturbed point inside one linear piece, as far as the
/// objective <g, post> can see?  (Same rule as `Stable` in MC_Layers.)
fn stable(kind: &str, act: &str, pre0: &[f32], pre1: &[f32], g: &[f32], max0: &Option<Tensor>, max1: &Option<Tensor>) -> bool {
    if kind == "pool" {
        // the recorded arg-max positions must coincide where the objective looks
        let (a, b) = (format!("{:?}", max0.as_ref().map(|t| &t.data)), format!("{:?}", max1.as_ref().map(|t| &t.data)));
        return a == b || {
            // tolerate differences only if the values agree (ties at the far end): compare pre values
            pre0.iter().zip(pre1.iter()).zip(g.iter()).all(|((p, q), w)| *w == 0.0 || p == q)
        };
    }
    if act != "relu" {
        return true;
    }
    pre0.iter()
        .zip(pre1.iter())
        .zip(g.iter())
        .all(|((a, b), w)| *w == 0.0 || (*a > 0.0 && *b >= 0.0) || (*a < 0.0 && *b <= 0.0))
}

/// Finite-difference check of the implementation's own backward against its own forward
/// (exact on integer data).  Returns Some(description) if some stable coordinate disagrees.
pub fn impl_fd_disagrees(c: &Value, params: &Value, x: &Value, g: &Value) -> Option<String> {
    let kind = str_of(c, "kind");
    let act = str_of(c, "act");
    let layer = build_layer(c, params);
    let xt = tensor_from(x);
    let gt = tensor_from(g);
    let gflat = flat(&gt);
    let (pre0, post0, max0) = layer.forward(&xt);
    let l0 = dot(&gflat, &flat(&post0));
    let (dx, dw, db) = layer.backward(&gt, &xt, &pre0, &max0);
    let pre0f = flat(&pre0);

    let eval = |p: &Value, xv: &Value| -> (f64, Vec<f32>, Option<Tensor>) {
        let l = build_layer(c, p);
        let (pre, post, max) = l.forward(&tensor_from(xv));
        (dot(&gflat, &flat(&post)), flat(&pre), max)
    };
    let check = |what: &str, idx: usize, d: f32, pp: (&Value, &Value), pm: (&Value, &Value)| -> Option<String> {
        let (lp, prep, maxp) = eval(pp.0, pp.1);
        let (lm, prem, maxm) = eval(pm.0, pm.1);
        if stable(kind, act, &pre0f, &prep, &gflat, &max0, &maxp) && stable(kind, act, &pre0f, &prem, &gflat, &max0, &maxm) {
            if (lp - l0) != d as f64 || (l0 - lm) != d as f64 {
                return Some(format!(
                    "{} coordinate {}: backward gives {}, finite differences of the implementation's forward give {} / {}",
                    what, idx, d, lp - l0, l0 - lm
                ));
            }
        }
        None
    };

    // perturb a JSON nested array at flat position idx
    fn bump(v: &Value, idx: &mut i64, delta: i64) -> Value {
        match v.as_array() {
            Some(a) => Value::Array(a.iter().map(|e| bump(e, idx, delta)).collect()),
            None => {
                let r = if *idx == 0 { json!(v.as_i64().unwrap() + delta) } else { v.clone() };
                *idx -= 1;
                r
            }
        }
    }
    let bump_at = |v: &Value, i: usize, delta: i64| -> Value {
        let mut k = i as i64;
        bump(v, &mut k, delta)
    };

    // input coordinates
    let dxf = flat(&dx);
    for i in 0..dxf.len() {
        let (xp, xm) = (bump_at(x, i, 1), bump_at(x, i, -1));
        if let Some(s) = check("input", i, dxf[i], (params, &xp), (params, &xm)) {
            return Some(s);
        }
    }
    // parameter coordinates
    if let Some(dw) = dw {
        let key = if kind == "dense" { "W" } else { "K" };
        let dwf = flat(&dw);
        for i in 0..dwf.len() {
            let mut pp = params.clone();
            let mut pm = params.clone();
            pp[key] = bump_at(&params[key], i, 1);
            pm[key] = bump_at(&params[key], i, -1);
            if let Some(s) = check("weight", i, dwf[i], (&pp, x), (&pm, x)) {
                return Some(s);
            }
        }
    }
    if let Some(db) = db {
        let dbf = flat(&db);
        for i in 0..dbf.len() {
            let mut pp = params.clone();
            let mut pm = params.clone();
            pp["b"] = bump_at(&params["b"], i, 1);
            pm["b"] = bump_at(&params["b"], i, -1);
            if let Some(s) = check("bias", i, dbf[i], (&pp, x), (&pm, x)) {
                return Some(s);
            }
        }
    }
    None
}

pub fn replay_layer(case: &Value, rep: &mut Report) {
    let c = &case["cfg"];
    let kind = str_of(c, "kind");
    let id = format!("layer:{}:seed{}", c, case["seed"]);
    let layer = match guarded(|| build_layer(c, &case["params"])) {
        Ok(l) => l,
        Err(e) => {
            rep.mismatch("C08", "valid_configuration_rejected", &id, json!({"panic": e}), case);
            rep.mismatch("C02", "valid_configuration_rejected", &id, json!({"panic": e}), case);
            return;
        }
    };
    let x = tensor_from(&case["x"]);
    let xflat = Tensor::single(flat(&x));
    let g = tensor_from(&case["g"]);
    rep.nontrivial(format!("{}", c));

    // ---- announced output shape (the layer's own Display: `in -> out`) = the size formulas (C08) ----
    let shown = match &layer {
        AnyLayer::Dense(l) => format!("{}", l),
        AnyLayer::Conv(l) => format!("{}", l),
        AnyLayer::Deconv(l) => format!("{}", l),
        AnyLayer::Pool(l) => format!("{}", l),
    };
    if let Some(line) = shown.lines().find(|l| l.contains(" -> ")) {
        let out: Vec<usize> = line.split(" -> ").nth(1).unwrap_or("").trim().split('x').filter_map(|p| p.trim().parse().ok()).collect();
        rep.checks += 1;
        if out != usizes(&case["out"]) {
            rep.mismatch("C08", &format!("announced_shape:{}", kind), &id, json!({"announced": out, "expected": case["out"]}), case);
        }
    }

    // ---- forward, both input representations (C02), produced dimensions (C08) ----
    let mut forward_ok = true;
    let mut observed: Option<(Tensor, Tensor, Option<Tensor>)> = None;
    for (repr, input) in [("spatial", &x), ("flat", &xflat)] {
        if kind == "dense" && repr == "flat" {
            continue;
        }
        rep.checks += 1;
        match guarded(|| layer.forward(input)) {
            Err(e) => {
                forward_ok = false;
                rep.mismatch("C02", &format!("forward_panic_{}_input:{}", repr, kind), &id, json!({"panic": e, "kind": kind}), case);
            }
            Ok((pre, post, max)) => {
                let want_dims = usizes(&case["out"]);
                if data_dims(&pre.data) != want_dims || shape_dims(&pre.shape) != want_dims {
                    rep.mismatch(
                        "C08",
                        &format!("produced_shape:{}", kind),
                        &id,
                        json!({"input": repr, "expected": want_dims, "observed": data_dims(&pre.data), "recorded": shape_dims(&pre.shape)}),
                        case,
                    );
                }
                let dpre = diff_exact(&pre, &case["pre"]);
                let dpost = diff_exact(&post, &case["post"]);
                if dpre.is_some() || dpost.is_some() {
                    // C08, flat <-> spatial transitions: the same input handed over as a flat row-major vector must give
                    // what the spatial representation gives (which was right, or forward_ok would be false already)
                    if repr == "flat" && forward_ok {
                        rep.mismatch("C08", &format!("flat_representation_changes_the_output:{}", kind), &id, json!({"pre": dpre, "post": dpost}), case);
                    }
                    forward_ok = false;
                    rep.mismatch(
                        "C02",
                        &format!("forward_value_{}_input:{}", repr, kind),
                        &id,
                        json!({"kind": kind, "pre": dpre, "post": dpost}),
                        case,
                    );
                }
                // the output is a function of the input alone: the same call again gives the same bits
                if let Ok((pre2, post2, _)) = guarded(|| layer.forward(input)) {
                    let bits = |t: &Tensor| flat(t).iter().map(|v| v.to_bits()).collect::<Vec<u32>>();
                    if bits(&pre2) != bits(&pre) || bits(&post2) != bits(&post) {
                        rep.mismatch("C02", &format!("forward_not_repeatable:{}", kind), &id, json!({"input": repr}), case);
                    }
                }
                if repr == "spatial" || kind == "dense" {
                    observed = Some((pre, post, max));
                }
            }
        }
    }

    // ---- forward on the same data scaled by a power of two (exact in single precision): every layer without a bias
    //      is positively homogeneous (Linear / ReLU / max), so the outputs scale with the inputs -- for inputs far below
    //      the machine epsilon and far above the usual magnitudes alike ("all finite inputs") ----
    if forward_ok && !(kind == "dense" && bool_of(c, "bias")) {
        let mut want: Vec<f32> = Vec::new();
        flat_json(&case["post"], &mut want);
        for e in [-30i32, 40] {
            let sc = (2.0f64).powi(e) as f32;
            let scaled: Vec<f32> = flat(&x).iter().map(|v| v * sc).collect();
            let xs = if kind == "dense" { Tensor::single(scaled) } else { crate::tensors::triple_rowmajor(&data_dims(&x.data), &scaled) };
            rep.checks += 1;
            match guarded(|| layer.forward(&xs)) {
                Err(msg) => rep.mismatch("C02", &format!("forward_panic_scaled_input:{}", kind), &id, json!({"panic": msg, "scale_exponent": e}), case),
                Ok((_, post, _)) => {
                    let got = flat(&post);
                    let bad = if got.len() != want.len() { Some(usize::MAX) } else { got.iter().zip(want.iter()).position(|(g, w)| *g != *w * sc) };
                    if let Some(i) = bad {
                        rep.mismatch(
                            "C02",
                            &format!("forward_value_scaled_input:{}", kind),
                            &id,
                            json!({"scale": format!("2^{}", e), "element": if i == usize::MAX { json!("length") } else { json!(i) },
                                   "observed": got.get(i).map(|v| format!("{:e}", v)), "expected": want.get(i).map(|w| format!("{:e}", *w * sc))}),
                            case,
                        );
                        break;
                    }
                }
            }
        }
    }

    // ---- backward (C01): gradients and their shapes (C08) ----
    let Some((pre, _post, max)) = observed else { return };
    // backward is LINEAR in the upstream gradient: the same gradient scaled by 2^-30 (exact) scales every result by
    // 2^-30 -- also when that makes it far smaller than the machine epsilon
    if forward_ok {
        let sc = (2.0f64).powi(-30) as f32;
        let gs_flat: Vec<f32> = flat(&g).iter().map(|v| v * sc).collect();
        let gs = if kind == "dense" { Tensor::single(gs_flat) } else { crate::tensors::triple_rowmajor(&data_dims(&g.data), &gs_flat) };
        rep.checks += 1;
        if let (Ok((dx0, dw0, db0)), Ok((dx1, dw1, db1))) = (guarded(|| layer.backward(&g, &x, &pre, &max)), guarded(|| layer.backward(&gs, &x, &pre, &max))) {
            let scaled_ok = |a: &Tensor, b: &Tensor| {
                let (fa, fb) = (flat(a), flat(b));
                fa.len() == fb.len() && fa.iter().zip(fb.iter()).all(|(u, v)| *u * sc == *v)
            };
            let mut bad: Vec<&str> = Vec::new();
            if !scaled_ok(&dx0, &dx1) { bad.push("input gradient"); }
            if let (Some(a), Some(b)) = (&dw0, &dw1) { if !scaled_ok(a, b) { bad.push("weight gradient"); } }
            if let (Some(a), Some(b)) = (&db0, &db1) { if !scaled_ok(a, b) { bad.push("bias gradient"); } }
            if !bad.is_empty() {
                rep.mismatch("C01", &format!("gradient_not_linear_in_upstream_gradient:{}", kind), &id, json!({"scale": "2^-30", "differs": bad}), case);
            }
        }
    }
    let mut spatial_ok = false;
    for (repr, input, grad) in [("spatial", &x, &g), ("flat", &xflat, &Tensor::single(flat(&g)))] {
        if kind == "dense" && repr == "flat" {
            continue;
        }
        rep.checks += 1;
        match guarded(|| layer.backward(grad, input, &pre, &max)) {
            Err(e) => {
                if repr == "flat" && spatial_ok {
                    rep.mismatch("C08", &format!("flat_representation_changes_the_gradient:{}", kind), &id, json!({"panic": e}), case);
                }
                c01(rep, case, &id, &format!("backward_panic:{}", kind), json!({"panic": e, "input": repr, "kind": kind}), forward_ok);
            }
            Ok((dx, dw, db)) => {
                let mut diffs = Vec::new();
                if let Some(d) = diff_exact(&dx, &case["dx"]) {
                    diffs.push(format!("input gradient: {}", d));
                }
                if let Some(dw) = &dw {
                    if let Some(d) = diff_exact(dw, &case["dw"]) {
                        diffs.push(format!("weight gradient: {}", d));
                    }
                }
                if bool_of(c, "bias") {
                    match &db {
                        Some(db) => {
                            if let Some(d) = diff_exact(db, &case["db"]) {
                                diffs.push(format!("bias gradient: {}", d));
                            }
                        }
                        None => diffs.push("bias gradient missing".to_string()),
                    }
                }
                if repr == "spatial" && diffs.is_empty() {
                    spatial_ok = true;
                }
                // C08, flat <-> spatial transitions on the backward path: the same input and gradient handed over as flat
                // row-major vectors must give the gradients the spatial representation gives
                if repr == "flat" && spatial_ok && !diffs.is_empty() {
                    rep.mismatch("C08", &format!("flat_representation_changes_the_gradient:{}", kind), &id, json!({"diffs": diffs}), case);
                }
                if !diffs.is_empty() {
                    let shape_problem = diffs.iter().any(|d| d.contains("dimensions") || d.contains("recorded shape"));
                    if shape_problem {
                        rep.mismatch("C08", &format!("gradient_shape:{}", kind), &id, json!({"input": repr, "diffs": diffs}), case);
                    }
                    c01(rep, case, &id, &format!("gradient_value:{}", kind), json!({"input": repr, "kind": kind, "diffs": diffs}), forward_ok);
                }
            }
        }
    }
}

/// A gradient disagreement with the specification is a C01 violation when the implementation's forward
/// agrees with the specification on this case, or when the implementation's backward also disagrees with
/// finite differences of the implementation's own forward.  Otherwise the forward differs from the
/// specification (reported under C02) and backward is consistent with it: C01 holds.
fn c01(rep: &mut Report, case: &Value, id: &str, kind: &str, detail: Value, forward_ok: bool) {
    if forward_ok {
        rep.mismatch("C01", kind, id, detail, case);
        return;
    }
    match guarded(|| impl_fd_disagrees(&case["cfg"], &case["params"], &case["x"], &case["g"])) {
        Ok(None) => rep.count("c01_gradient_consistent_with_changed_forward", 1),
        Ok(Some(s)) => rep.mismatch("C01", kind, id, json!({"spec": detail, "finite_difference": s}), case),
        Err(e) => rep.mismatch("C01", kind, id, json!({"spec": detail, "finite_difference_panic": e}), case),
    }
}
