//! Group "training": behaviours of the process model (Training.tla) replayed into the real
//! `learn` / `validate` / `predict_batch` (C04, C09, C13), and the recording drivers whose hook traces
//! TLC validates against the same model (C04, C05, C09, C13).

use crate::nets;
use crate::util::*;
use neurons::network::Network;
use neurons::tensor::Tensor;
use neurons::{objective, verif};
use serde_json::{json, Value};

pub struct Dataset {
    pub inputs: Vec<Tensor>,
    pub targets: Vec<Tensor>,
}

fn rand_tensor(shape: &[usize], rng: &mut Rng, ints: bool, lo: f32, hi: f32) -> Tensor {
    let n: usize = shape.iter().product();
    let v: Vec<f32> = (0..n)
        .map(|_| {
            if ints {
                rng.range(lo as i64, hi as i64) as f32
            } else {
                lo + (hi - lo) * rng.unit()
            }
        })
        .collect();
    if shape.len() == 1 {
        Tensor::single(v)
    } else {
        crate::tensors::triple_rowmajor(shape, &v)
    }
}

pub fn dataset(n: usize, input: &[usize], out: usize, rng: &mut Rng, ints: bool, onehot: bool) -> Dataset {
    let mut d = Dataset { inputs: Vec::new(), targets: Vec::new() };
    for _ in 0..n {
        d.inputs.push(rand_tensor(input, rng, ints, if ints { -3.0 } else { -1.0 }, if ints { 3.0 } else { 1.0 }));
        if onehot {
            d.targets.push(Tensor::one_hot(rng.below(out as u64) as usize, out));
        } else {
            d.targets.push(rand_tensor(&[out], rng, ints, if ints { -4.0 } else { 0.0 }, if ints { 4.0 } else { 1.0 }));
        }
    }
    d
}

/// Architectures used by the schedule replays and the recording drivers.
pub fn architectures() -> Vec<Value> {
    vec![
        json!({"name": "intmodel", "ints": true, "input": [3], "out": 2,
               "layers": [{"kind": "dense", "out": 2, "act": "linear", "bias": false}],
               "objective": {"kind": "ae"}, "optimizer": {"kind": "sgd", "lr": 1.0}}),
        json!({"name": "mlp-adam", "ints": false, "input": [4], "out": 3,
               "layers": [{"kind": "dense", "out": 5, "act": "tanh", "bias": true},
                          {"kind": "dense", "out": 3, "act": "sigmoid", "bias": true}],
               "objective": {"kind": "mse"}, "optimizer": {"kind": "adam", "lr": 0.01}}),
        json!({"name": "cnn-sgdm", "ints": false, "input": [1, 6, 6], "out": 3,
               "layers": [{"kind": "conv", "filters": 2, "kernel": [3, 3], "stride": [1, 1], "padding": [1, 1], "act": "relu"},
                          {"kind": "pool", "kernel": [2, 2], "stride": [2, 2]},
                          {"kind": "dense", "out": 3, "act": "linear", "bias": true}],
               "objective": {"kind": "mse"}, "optimizer": {"kind": "sgdm", "lr": 0.01, "momentum": 0.9, "dampening": 0.1}}),
        json!({"name": "deconv-fb-rmsprop", "ints": false, "input": [1, 4, 4], "out": 2,
               "layers": [{"kind": "deconv", "filters": 1, "kernel": [3, 3], "stride": [1, 1], "padding": [1, 1], "act": "tanh"},
                          {"kind": "feedback", "loops": 2, "acc": "mean",
                           "layers": [{"kind": "conv", "filters": 1, "kernel": [3, 3], "stride": [1, 1], "padding": [1, 1], "act": "tanh"}]},
                          {"kind": "dense", "out": 2, "act": "linear", "bias": false}],
               "objective": {"kind": "mse"}, "optimizer": {"kind": "rmsprop", "lr": 0.001, "alpha": 0.9}}),
        json!({"name": "mlp-mixed-bias-sgdm", "ints": false, "input": [4], "out": 3,
               "layers": [{"kind": "dense", "out": 5, "act": "tanh", "bias": true},
                          {"kind": "dense", "out": 4, "act": "tanh", "bias": false},
                          {"kind": "dense", "out": 4, "act": "sigmoid", "bias": true},
                          {"kind": "dense", "out": 3, "act": "linear", "bias": false}],
               "objective": {"kind": "mse"}, "optimizer": {"kind": "sgdm", "lr": 0.05, "momentum": 0.8, "dampening": 0.2, "decay": 0.01}}),
        json!({"name": "mlp-adamw-ce", "ints": false, "input": [5], "out": 3, "onehot": true,
               "layers": [{"kind": "dense", "out": 6, "act": "leaky", "bias": true},
                          {"kind": "dense", "out": 3, "act": "softmax", "bias": true}],
               "objective": {"kind": "ce"}, "optimizer": {"kind": "adamw", "lr": 0.01, "decay": 0.01}}),
        // a max-pool layer at a position that is NOT the mirror image of another parameter-free layer (conv, conv, pool, dense)
        json!({"name": "cnn-conv-conv-pool-sgd", "ints": false, "input": [1, 6, 6], "out": 2,
               "layers": [{"kind": "conv", "filters": 2, "kernel": [3, 3], "stride": [1, 1], "padding": [1, 1], "act": "tanh"},
                          {"kind": "conv", "filters": 2, "kernel": [3, 3], "stride": [1, 1], "padding": [0, 0], "act": "tanh"},
                          {"kind": "pool", "kernel": [2, 2], "stride": [2, 2]},
                          {"kind": "dense", "out": 2, "act": "linear", "bias": true}],
               "objective": {"kind": "mse"}, "optimizer": {"kind": "sgd", "lr": 0.05}}),
        // two feedback blocks in one network (each block keeps its own copy of the network's optimizer)
        json!({"name": "two-blocks-adam", "ints": false, "input": [3], "out": 2,
               "layers": [{"kind": "dense", "out": 4, "act": "tanh", "bias": true},
                          {"kind": "feedback", "loops": 2, "acc": "mean", "layers": [{"kind": "dense", "out": 4, "act": "tanh", "bias": true}]},
                          {"kind": "feedback", "loops": 2, "acc": "mean", "layers": [{"kind": "dense", "out": 4, "act": "tanh", "bias": false}]},
                          {"kind": "dense", "out": 2, "act": "linear", "bias": false}],
               "objective": {"kind": "mse"}, "optimizer": {"kind": "adam", "lr": 0.01}}),
        // several filters in top-level deconvolution and convolution layers under a stateful optimizer (one state slot each);
        // kernels wider than tall and taller than wide
        json!({"name": "deconv-multifilter-adam", "ints": false, "input": [1, 3, 3], "out": 2,
               "layers": [{"kind": "deconv", "filters": 2, "kernel": [2, 3], "stride": [1, 1], "padding": [0, 0], "act": "tanh"},
                          {"kind": "conv", "filters": 3, "kernel": [3, 2], "stride": [1, 1], "padding": [0, 0], "act": "tanh"},
                          {"kind": "dense", "out": 2, "act": "linear", "bias": true}],
               "objective": {"kind": "mse"}, "optimizer": {"kind": "adam", "lr": 0.01}}),
        // a dense layer wider than the 64-element blocks the evaluation paths use, and not a multiple of 64
        json!({"name": "mlp-wide-sgd", "ints": false, "input": [3], "out": 2,
               "layers": [{"kind": "dense", "out": 100, "act": "tanh", "bias": true},
                          {"kind": "dense", "out": 2, "act": "linear", "bias": false}],
               "objective": {"kind": "mse"}, "optimizer": {"kind": "sgd", "lr": 0.01}}),
        // a convolution filter that never fires (negative kernel, non-negative inputs, ReLU): its summed gradient is
        // exactly zero in every group, and the step on it is pure weight decay.  The reference applies the documented
        // SGD rule by hand (`manual_sgd`) instead of calling the optimizer.
        json!({"name": "cnn-deadfilter-sgd-decay", "ints": false, "input": [1, 4, 4], "out": 2,
               "dead_filter": true, "manual_sgd": true,
               "layers": [{"kind": "conv", "filters": 2, "kernel": [2, 2], "stride": [1, 1], "padding": [0, 0], "act": "relu"},
                          {"kind": "dense", "out": 2, "act": "linear", "bias": true}],
               "objective": {"kind": "mse"}, "optimizer": {"kind": "sgd", "lr": 0.05, "decay": 0.1}}),
    ]
}

pub fn arch_dataset(arch: &Value, n: usize, rng: &mut Rng) -> Dataset {
    let mut d = arch_dataset_raw(arch, n, rng);
    if let Some(f) = arch.get("input_scale").and_then(|v| v.as_f64()) {
        for x in d.inputs.iter_mut() {
            let v: Vec<f32> = flat(x).iter().map(|a| a * f as f32).collect();
            *x = if usizes(&arch["input"]).len() == 1 { Tensor::single(v) } else { crate::tensors::triple_rowmajor(&usizes(&arch["input"]), &v) };
        }
        for t in d.targets.iter_mut() {
            let v: Vec<f32> = flat(t).iter().map(|a| a * f as f32).collect();
            *t = Tensor::single(v);
        }
    }
    if arch.get("dead_filter").is_some() {
        for x in d.inputs.iter_mut() {
            let v: Vec<f32> = flat(x).iter().map(|a| a.abs()).collect();
            *x = crate::tensors::triple_rowmajor(&usizes(&arch["input"]), &v);
        }
    }
    // binary masks with the same number of set cells: every sample is a PERMUTATION of the same values (equal element
    // sums, equal norms, equal extrema -- whatever cheap fingerprint of a sample one may think of, they collide)
    if arch.get("permuted_inputs").is_some() {
        let shape = usizes(&arch["input"]);
        let count: usize = shape.iter().product();
        let base: Vec<f32> = (0..count).map(|i| if i % 3 == 0 { 1.0 } else { 0.0 }).collect();
        for x in d.inputs.iter_mut() {
            let mut v = base.clone();
            for i in (1..count).rev() {
                v.swap(i, rng.below(i as u64 + 1) as usize);
            }
            *x = if shape.len() == 1 { Tensor::single(v) } else { crate::tensors::triple_rowmajor(&shape, &v) };
        }
    }
    // image-to-image networks: the targets are volumes of the network's output shape
    if let Some(ts) = arch.get("image_target") {
        let shape = usizes(ts);
        for t in d.targets.iter_mut() {
            *t = rand_tensor(&shape, rng, false, 0.0, 1.0);
        }
    }
    d
}

fn arch_dataset_raw(arch: &Value, n: usize, rng: &mut Rng) -> Dataset {
    dataset(
        n,
        &usizes(&arch["input"]),
        usize_of(arch, "out"),
        rng,
        arch["ints"].as_bool().unwrap_or(false),
        arch.get("onehot").and_then(|b| b.as_bool()).unwrap_or(false),
    )
}

pub fn init_params(net: &mut Network, arch: &Value, rng: &mut Rng) {
    if arch["ints"].as_bool().unwrap_or(false) {
        nets::randomize_ints(net, arch, rng, -2, 2);
    } else {
        nets::randomize_floats(net, arch, rng, 0.7);
    }
    // per-layer scaling of the drawn parameters (e.g. 1e-20 then 1e20: the values in between are subnormal)
    if let Some(scales) = arch.get("layer_scales").and_then(|v| v.as_array()) {
        for (i, sc) in scales.iter().enumerate() {
            let f = sc.as_f64().unwrap() as f32;
            let mut p = verif::layer_params(&net.layers[i]);
            if let Some(w) = p.weights.as_mut() {
                w.iter_mut().flatten().for_each(|x| *x *= f);
            }
            if let Some(b) = p.bias.as_mut() {
                b.iter_mut().for_each(|x| *x *= f);
            }
            if let Some(k) = p.kernels.as_mut() {
                k.iter_mut().flatten().flatten().flatten().for_each(|x| *x *= f);
            }
            verif::set_layer(&mut net.layers[i], p);
        }
    }
    if arch.get("dead_filter").is_some() {
        let mut p = verif::layer_params(&net.layers[0]);
        if let Some(k) = p.kernels.as_mut() {
            for x in k[1].iter_mut().flatten().flatten() {
                *x = -0.5 - x.abs();
            }
        }
        verif::set_layer(&mut net.layers[0], p);
    }
}

/// Execute the schedule of the specification (`updates`: step number + ordered sample groups) with the
/// implementation's own primitives: forward, objective loss, backward, one `update` per group on the sum.
pub fn run_reference(net: &mut Network, arch: &Value, data: &Dataset, updates: &Value, train: &Value) -> Vec<f32> {
    let obj = objective::Function::create(
        nets::objective_kind(str_of(&arch["objective"], "kind")),
        nets::clamp_of(&arch["objective"]),
    );
    let mut losses: Vec<f32> = vec![0.0; data.inputs.len()];
    let mut update_iter = updates.as_array().unwrap().iter();
    let mut history = Vec::new();
    for epoch in train.as_array().unwrap() {
        let mut epoch_loss = 0.0f32;
        let batches = epoch.as_array().unwrap();
        for batch in batches {
            let u = update_iter.next().expect("one update per batch");
            let mut wsum: Vec<Tensor> = Vec::new();
            let mut bsum: Vec<Option<Tensor>> = Vec::new();
            for g in u["grads"].as_array().unwrap() {
                let s = usize_of(g, "s") - 1;
                let (pre, post, max, fbs) = net.forward(&data.inputs[s]);
                let (loss, grad) = obj.loss(post.last().unwrap(), &data.targets[s]);
                losses[s] = loss;
                let (wg, bg) = net.verif_backward(grad, &pre, &post, &max, fbs);
                if wsum.is_empty() {
                    wsum = wg;
                    bsum = bg;
                } else {
                    for (a, b) in wsum.iter_mut().zip(wg.iter()) {
                        add_tensors(a, b);
                    }
                    for (a, b) in bsum.iter_mut().zip(bg.iter()) {
                        if let (Some(a), Some(b)) = (a.as_mut(), b.as_ref()) {
                            add_tensors(a, b);
                        }
                    }
                }
            }
            if arch.get("manual_sgd").is_some() {
                let o = &arch["optimizer"];
                nets::manual_sgd_step(net, &wsum, &bsum, o["lr"].as_f64().unwrap() as f32, o.get("decay").and_then(|d| d.as_f64()).map(|d| d as f32));
            } else {
                net.verif_update(u["step"].as_i64().unwrap() as i32, wsum, bsum);
            }
            let ids = usizes(batch);
            let sum: f32 = ids.iter().map(|s| losses[*s - 1]).sum();
            epoch_loss += sum / ids.len() as f32;
        }
        history.push(epoch_loss / batches.len() as f32);
    }
    history
}

fn refs(v: &Vec<Tensor>) -> Vec<&Tensor> {
    v.iter().collect()
}

fn replay_schedule(case: &Value, rep: &mut Report, rng: &mut Rng) {
    let p = &case["p"];
    let (n, b, e) = (usize_of(p, "n"), usize_of(p, "b"), usize_of(p, "e"));
    let id = format!("training:schedule:n{}b{}e{}", n, b, e);
    if bool_of(p, "hasval") {
        return; // validation variants are replayed by the early-stop / flags instances
    }
    replay_block_twin(case, rep, rng);
    // (plus an image-to-image network -- the last layer is a convolution, the targets are volumes -- which only the
    // schedule replay can use: `validate` scores flat outputs)
    let image = json!({"name": "image-to-image-sgdm", "ints": false, "input": [1, 4, 4], "out": 2, "image_target": [3, 4, 4],
                       "layers": [{"kind": "conv", "filters": 2, "kernel": [3, 3], "stride": [1, 1], "padding": [1, 1], "act": "tanh"},
                                  {"kind": "conv", "filters": 3, "kernel": [3, 3], "stride": [1, 1], "padding": [1, 1], "act": "sigmoid"}],
                       "objective": {"kind": "mse"}, "optimizer": {"kind": "sgdm", "lr": 0.05, "momentum": 0.5}});
    for arch in architectures().into_iter().chain(std::iter::once(image)) {
        let name = str_of(&arch, "name").to_string();
        let data = arch_dataset(&arch, n, rng);
        let mut a = nets::build(&arch);
        init_params(&mut a, &arch, rng);
        let mut r = nets::build(&arch);
        nets::copy_params(&a, &mut r);
        // Optimizer.tla, SGDM: a step with step number 1 sets the velocity to the gradient and is a plain SGD step -- so a
        // one-epoch run (every group is stepped with step number 1) equals the same run under SGD
        let sgd_twin = if e == 1 && arch["optimizer"]["kind"] == "sgdm" {
            let mut t_arch = arch.clone();
            let mut o = json!({"kind": "sgd", "lr": arch["optimizer"]["lr"]});
            if let Some(d) = arch["optimizer"].get("decay") {
                o["decay"] = d.clone();
            }
            t_arch["optimizer"] = o;
            let mut t = nets::build(&t_arch);
            nets::copy_params(&a, &mut t);
            Some(t)
        } else {
            None
        };
        rep.checks += 1;
        let learned = guarded(|| {
            let out = a.learn(&refs(&data.inputs), &refs(&data.targets), None, b, e as i32, None);
            (out, nets::all_params(&a))
        });
        let reference = guarded(|| {
            let h = run_reference(&mut r, &arch, &data, &case["updates"], &case["train"]);
            (h, nets::all_params(&r))
        });
        // a second `learn` call on the same network continues the same descent (optimizer state carried over, step
        // numbers starting again at 1 as the schedule says): compared with the reference continued the same way
        let second = guarded(|| {
            a.learn(&refs(&data.inputs), &refs(&data.targets), None, b, e as i32, None);
            run_reference(&mut r, &arch, &data, &case["updates"], &case["train"]);
            (nets::all_params(&a), nets::all_params(&r))
        });
        if let (Ok(_), Ok(_), Ok((wa2, wr2))) = (&learned, &reference, &second) {
            let fa: Vec<f32> = wa2.iter().flatten().cloned().collect();
            let fr: Vec<f32> = wr2.iter().flatten().cloned().collect();
            if fa.iter().chain(fr.iter()).all(|x| x.is_finite()) {
                rep.checks += 1;
                if let Some(d) = diff_flat_close(&fa, &fr, 1e-5) {
                    rep.mismatch("C04", "second_learn_call_differs_from_continued_reference_descent", &id, json!({"arch": name, "diff": d}), case);
                    // C03, "after any sequence of steps": the optimizer state (and nothing else) is what the second call
                    // inherits from the first
                    rep.mismatch("C03", "optimizer_history_not_continued_across_learn_calls", &id, json!({"arch": name, "diff": d}), case);
                }
            }
        } else if let (Ok(_), Ok(_), Err(e)) = (&learned, &reference, &second) {
            rep.mismatch("C04", "second_learn_call_panicked", &id, json!({"arch": name, "panic": e}), case);
        }
        if let (Some(mut t), Ok((_, wa))) = (sgd_twin, &learned) {
            if let Ok(wt) = guarded(|| {
                t.learn(&refs(&data.inputs), &refs(&data.targets), None, b, 1, None);
                nets::all_params(&t)
            }) {
                let fa: Vec<f32> = wa.iter().flatten().cloned().collect();
                let ft: Vec<f32> = wt.into_iter().flatten().collect();
                rep.checks += 1;
                if fa.iter().chain(ft.iter()).all(|x| x.is_finite()) {
                    if let Some(d) = diff_flat_close(&fa, &ft, 1e-6) {
                        rep.mismatch("C04", "first_epoch_of_sgdm_differs_from_sgd", &id, json!({"arch": name, "diff": d}), case);
                        rep.mismatch("C03", "first_epoch_of_sgdm_differs_from_sgd", &id, json!({"arch": name, "diff": d}), case);
                    }
                }
            }
        }
        match (learned, reference) {
            (Ok(((train, val, acc), wa)), Ok((href, wr))) => {
                let exact = arch["ints"].as_bool().unwrap_or(false);
                let fa: Vec<f32> = wa.into_iter().flatten().collect();
                let fr: Vec<f32> = wr.into_iter().flatten().collect();
                let dw = if exact { diff_flat_exact(&fa, &fr) } else { diff_flat_close(&fa, &fr, 1e-5) };
                if let Some(d) = dw {
                    rep.mismatch("C04", "weights_differ_from_reference_descent", &id, json!({"arch": name, "diff": d}), case);
                }
                if let Some(d) = diff_flat_close(&train, &href, 1e-5) {
                    rep.mismatch("C04", "train_loss_differs_from_reference", &id, json!({"arch": name, "diff": d, "observed": train, "expected": href}), case);
                }
                if train.len() != usize_of(case, "ran") || !val.is_empty() || !acc.is_empty() {
                    rep.mismatch("C13", "history_lengths_without_validation", &id, json!({"arch": name, "train": train.len(), "val": val.len(), "acc": acc.len()}), case);
                }
                if fr.iter().any(|x| !x.is_finite()) {
                    rep.count("reference_nonfinite", 1);
                }
                rep.nontrivial(format!("{}:{}", id, name));
            }
            (l, r) => {
                rep.mismatch(
                    "C04",
                    "learn_or_reference_panicked",
                    &id,
                    json!({"arch": name, "learn": l.err(), "reference": r.err()}),
                    case,
                );
            }
        }
    }
}

/// A feedback block with ONE loop and no skips is its layer sequence: trained with the optimizer the network was given --
/// options that are easy to confuse set to different values -- it must follow the plain network step for step.
fn replay_block_twin(case: &Value, rep: &mut Report, rng: &mut Rng) {
    let p = &case["p"];
    let (n, b, e) = (usize_of(p, "n"), usize_of(p, "b"), usize_of(p, "e"));
    let optimizers = [
        json!({"kind": "rmsprop", "lr": 0.01, "alpha": 0.9, "decay": 0.1}),
        json!({"kind": "rmsprop", "lr": 0.01, "alpha": 0.9, "momentum": 0.5, "centered": true}),
        json!({"kind": "sgdm", "lr": 0.05, "momentum": 0.9, "dampening": 0.1, "decay": 0.01}),
        json!({"kind": "adam", "lr": 0.01, "decay": 0.05}),
        json!({"kind": "adamw", "lr": 0.01, "decay": 0.05}),
        json!({"kind": "sgd", "lr": 0.05, "decay": 0.02}),
    ];
    let opt = optimizers[(n * 5 + b * 3 + e) % optimizers.len()].clone();
    let inner = json!({"kind": "dense", "out": 4, "act": "tanh", "bias": true});
    let plain = json!({"name": "plain", "ints": false, "input": [4], "out": 2,
        "layers": [{"kind": "dense", "out": 4, "act": "tanh", "bias": true}, inner.clone(), {"kind": "dense", "out": 2, "act": "linear", "bias": true}],
        "objective": {"kind": "mse"}, "optimizer": opt.clone()});
    let block = json!({"name": "block", "ints": false, "input": [4], "out": 2,
        "layers": [{"kind": "dense", "out": 4, "act": "tanh", "bias": true},
                   {"kind": "feedback", "loops": 1, "acc": "mean", "layers": [inner]},
                   {"kind": "dense", "out": 2, "act": "linear", "bias": true}],
        "objective": {"kind": "mse"}, "optimizer": opt.clone()});
    let id = format!("training:schedule:block-twin:n{}b{}e{}:{}", n, b, e, opt["kind"]);
    rep.checks += 1;
    let res = guarded(|| {
        let mut pn = nets::build(&plain);
        init_params(&mut pn, &plain, rng);
        let mut bn = nets::build(&block);
        verif::set_layer(&mut bn.layers[0], verif::layer_params(&pn.layers[0]));
        verif::set_layer(&mut verif::inner_layers_mut(&mut bn.layers[1])[0], verif::layer_params(&pn.layers[1]));
        verif::set_layer(&mut bn.layers[2], verif::layer_params(&pn.layers[2]));
        let data = arch_dataset(&plain, n, rng);
        let lp = pn.learn(&refs(&data.inputs), &refs(&data.targets), None, b, e as i32, None);
        let lb = bn.learn(&refs(&data.inputs), &refs(&data.targets), None, b, e as i32, None);
        (lp.0, lb.0, nets::all_params(&pn), nets::all_params(&bn))
    });
    match res {
        Err(msg) => rep.mismatch("C04", "learn_or_reference_panicked", &id, json!({"panic": msg}), case),
        Ok((lp, lb, wp, wb)) => {
            let (fp, fb): (Vec<f32>, Vec<f32>) = (wp.into_iter().flatten().collect(), wb.into_iter().flatten().collect());
            if fp.iter().all(|x| x.is_finite()) {
                if let Some(d) = diff_flat_close(&fb, &fp, 1e-6).or_else(|| diff_flat_close(&lb, &lp, 1e-6)) {
                    rep.mismatch("C04", "one_loop_block_is_not_stepped_with_the_network_optimizer", &id, json!({"optimizer": opt, "diff": d}), case);
                    rep.mismatch("C03", "one_loop_block_is_not_stepped_with_the_network_optimizer", &id, json!({"optimizer": opt, "diff": d}), case);
                }
            }
        }
    }
}

fn one_param_net(lr: f32) -> (Value, Network) {
    // (the layer is configured with dropout: whichever way `learn` ends -- budget or early stop -- the network must
    // predict w * x afterwards)
    let arch = json!({"input": [1], "layers": [{"kind": "dense", "out": 1, "act": "linear", "bias": false, "dropout": 0.5}],
                      "objective": {"kind": "mse"}, "optimizer": {"kind": "sgd", "lr": lr}});
    let net = nets::build(&arch);
    (arch, net)
}

fn replay_earlystop(case: &Value, rep: &mut Report) {
    // The model's validation losses are ranks (the property only speaks about their order).  Each trajectory is replayed
    // under several order-preserving embeddings into the floats: plain, one ulp apart, the top rank at +infinity, the
    // bottom rank at -infinity.  Equal ranks stay equal (plateaus), strict rises stay strict.
    let ranks: Vec<f32> = vec1(&case["val"]);
    let (top, bottom) = (ranks.iter().cloned().fold(f32::MIN, f32::max), ranks.iter().cloned().fold(f32::MAX, f32::min));
    let embeddings: Vec<(&str, Box<dyn Fn(f32) -> f32>)> = vec![
        ("plain", Box::new(|r| r)),
        ("ulps", Box::new(|r| f32::from_bits(0.3f32.to_bits() + r as u32))),
        ("top_is_infinite", Box::new(move |r| if r == top { f32::INFINITY } else { r })),
        ("bottom_is_minus_infinite", Box::new(move |r| if r == bottom { f32::NEG_INFINITY } else { r })),
        // the bottom rank is zero -- written alternately as -0.0 and +0.0 (equal values: a plateau, never a rise)
        ("bottom_is_a_signed_zero", Box::new(move |r| if r == bottom { 0.0 } else { r })),
    ];
    for (name, f) in embeddings.iter() {
        let mut script: Vec<f32> = ranks.iter().map(|r| f(*r)).collect();
        if *name == "bottom_is_a_signed_zero" {
            for (i, v) in script.iter_mut().enumerate() {
                if *v == 0.0 && i % 2 == 0 {
                    *v = -0.0;
                }
            }
        }
        replay_earlystop_with(case, rep, name, script);
        if !bool_of(&case["p"], "hasval") {
            break;
        }
    }
}

fn replay_earlystop_with(case: &Value, rep: &mut Report, embedding: &str, script: Vec<f32>) {
    let p = &case["p"];
    let (e, tol, hasval) = (usize_of(p, "e"), usize_of(p, "tol"), bool_of(p, "hasval"));
    let ran = usize_of(case, "ran");
    let id = format!("training:earlystop:e{}tol{}val{}print{}:{}:{}", e, tol, hasval, p["print"], embedding, case["val"].to_string());
    let (arch, mut net) = one_param_net(0.01);
    let mut f = || 0.5f32;
    nets::randomize(&mut net, &arch, &mut f);
    let x = vec![Tensor::single(vec![1.0])];
    let y = vec![Tensor::single(vec![2.0])];
    // The model chooses one value per validated epoch; if the budget allows more epochs than the trajectory
    // has entries the behaviour ended (stop or budget), so the script never runs out.
    verif::set_val_loss_script(if hasval { Some(script.clone()) } else { None });
    rep.checks += 1;
    let out = guarded(|| {
        let xr = refs(&x);
        let yr = refs(&y);
        let val = if hasval { Some((&xr, &yr, tol as i32)) } else { None };
        let print = match p["print"].as_i64().unwrap_or(0) {
            0 => None,
            k => Some(k as i32),
        };
        net.learn(&xr, &yr, val, 1, e as i32, print)
    });
    verif::set_val_loss_script(None);
    // however the call ended (budget used up or stopped early), the network is back in inference mode: its prediction is
    // the composition of its layers, w * x here (C02 last clause / C09)
    if out.is_ok() {
        let w = nets::all_params(&net)[0][0];
        let p = flat(&net.predict(&x[0]));
        let flags = verif::flags(&net.layers);
        if p.len() != 1 || p[0].to_bits() != (w * 1.0f32).to_bits() || flags.iter().any(|f| *f) {
            let detail = json!({"weight": w, "prediction": p, "flags": flags, "embedding": embedding, "epochs_expected": ran});
            rep.mismatch("C09", "training_mode_left_on_after_learn_returned", &id, detail.clone(), case);
            rep.mismatch("C02", "prediction_after_training_is_not_the_composition_of_the_layers", &id, detail.clone(), case);
            rep.mismatch("C13", "training_mode_left_on_after_learn_returned", &id, detail, case);
        }
    }
    // nothing of a `learn` call survives into the next one: the same call again on the same network behaves the same
    verif::set_val_loss_script(if hasval { Some(script.clone()) } else { None });
    rep.checks += 1;
    let again = guarded(|| {
        let xr = refs(&x);
        let yr = refs(&y);
        let val = if hasval { Some((&xr, &yr, tol as i32)) } else { None };
        net.learn(&xr, &yr, val, 1, e as i32, None)
    });
    verif::set_val_loss_script(None);
    match again {
        Err(msg) => rep.mismatch("C13", "second_learn_call_panicked", &id, json!({"panic": msg}), case),
        Ok((train, val, acc)) => {
            let want_val = if hasval { ran } else { 0 };
            if train.len() != ran || val.len() != want_val || acc.len() != want_val {
                rep.mismatch("C13", "second_learn_call_on_the_same_network_runs_a_different_number_of_epochs", &id,
                             json!({"expected_epochs": ran, "train": train.len(), "val": val.len(), "acc": acc.len(), "tol": tol, "budget": e, "embedding": embedding}), case);
            }
        }
    }
    // The stop rule reads the validation LOSS only.  Same trajectory on a network whose validation ACCURACY rises strictly
    // from epoch to epoch (absolute-error objective, learning rate 1, one-hot inputs with targets 1..K: weight i reaches its
    // target exactly in epoch i and stays): a loss plateau with improving accuracy is still a plateau.
    // (budgets up to five epochs, plain embedding: the longer trajectories of the thorough tier add nothing to this question and
    // would triple its running time)
    if hasval && e >= 2 && e <= 5 && embedding == "plain" {
        let k = e;
        let arch2 = json!({"input": [k], "layers": [{"kind": "dense", "out": 1, "act": "linear", "bias": false}],
                           "objective": {"kind": "ae"}, "optimizer": {"kind": "sgd", "lr": 1.0}});
        let xs: Vec<Tensor> = (0..k).map(|i| Tensor::one_hot(i, k)).collect();
        let ys: Vec<Tensor> = (0..k).map(|i| Tensor::single(vec![(i + 1) as f32])).collect();
        verif::set_val_loss_script(Some(script.clone()));
        rep.checks += 1;
        let rising = guarded(|| {
            let mut net2 = nets::build(&arch2);
            let mut zero = || 0.0f32;
            nets::randomize(&mut net2, &arch2, &mut zero);
            let (xr, yr) = (refs(&xs), refs(&ys));
            net2.learn(&xr, &yr, Some((&xr, &yr, tol as i32)), 1, e as i32, None)
        });
        verif::set_val_loss_script(None);
        match rising {
            Err(msg) => rep.mismatch("C13", "learn_panicked", &id, json!({"panic": msg, "network": "rising accuracy"}), case),
            Ok((train, _, acc)) => {
                if acc.windows(2).all(|w| w[0] < w[1]) && acc.len() >= 2 {
                    rep.count("earlystop_runs_with_strictly_rising_accuracy", 1);
                }
                if train.len() != ran {
                    rep.mismatch("C13", if train.len() < ran { "stopped_too_early" } else { "stopped_too_late" }, &id,
                                 json!({"expected_epochs": ran, "train": train.len(), "accuracy": acc, "network": "rising accuracy", "embedding": embedding,
                                        "trajectory": script.iter().map(|v| format!("{}", v)).collect::<Vec<_>>()}), case);
                }
            }
        }
    }
    match out {
        Err(msg) => rep.mismatch("C13", "learn_panicked", &id, json!({"panic": msg}), case),
        Ok((train, val, acc)) => {
            let want_val = if hasval { ran } else { 0 };
            if train.len() != ran || val.len() != want_val || acc.len() != want_val {
                rep.mismatch(
                    "C13",
                    if train.len() < ran { "stopped_too_early" } else if train.len() > ran { "stopped_too_late" } else { "history_lengths" },
                    &id,
                    json!({"expected_epochs": ran, "train": train.len(), "val": val.len(), "acc": acc.len(), "tol": tol, "budget": e, "embedding": embedding, "trajectory": script.iter().map(|v| format!("{}", v)).collect::<Vec<_>>()}),
                    case,
                );
            } else if hasval && diff_flat_exact(&val, &script[..ran]).is_some() {
                rep.mismatch("C13", "val_history_contents", &id, json!({"embedding": embedding, "observed": val.iter().map(|v| format!("{}", v)).collect::<Vec<_>>()}), case);
            }
            rep.nontrivial(id);
        }
    }
}

/// Architecture for a flag layout: `kinds` is a sequence over {"dense","conv","deconv","pool","fb"};
/// all layers preserve 16 elements (1x4x4 <-> 16); a final dense layer produces the 2 outputs.
pub fn flags_arch(kinds: &[String], drop: &[bool]) -> Value {
    let mut layers = Vec::new();
    let first_spatial = kinds.first().map(|k| k != "dense" && k != "fbdense" && k != "softmax").unwrap_or(false);
    let mut spatial = first_spatial;
    for (i, k) in kinds.iter().enumerate() {
        let d = if drop.get(i).cloned().unwrap_or(false) { json!(0.5) } else { Value::Null };
        match k.as_str() {
            "dense" => {
                layers.push(json!({"kind": "dense", "out": 16, "act": "tanh", "bias": true, "dropout": d}));
                spatial = false;
            }
            // a soft-max layer in the middle of the network (a vector-wide activation with its own dropout arm)
            "softmax" => {
                layers.push(json!({"kind": "dense", "out": 16, "act": "softmax", "bias": true, "dropout": d}));
                spatial = false;
            }
            "conv" => {
                layers.push(json!({"kind": "conv", "filters": 1, "kernel": [3, 3], "stride": [1, 1], "padding": [1, 1], "act": "tanh", "dropout": d}));
                spatial = true;
            }
            "deconv" => {
                layers.push(json!({"kind": "deconv", "filters": 1, "kernel": [3, 3], "stride": [1, 1], "padding": [1, 1], "act": "tanh", "dropout": d}));
                spatial = true;
            }
            // a point-wise convolution (1 x 1 kernel, no padding): the configuration for which fast paths get written
            "conv1" => {
                layers.push(json!({"kind": "conv", "filters": 1, "kernel": [1, 1], "stride": [1, 1], "padding": [0, 0], "act": "tanh", "dropout": d}));
                spatial = true;
            }
            "pool" => {
                layers.push(json!({"kind": "pool", "kernel": [1, 1], "stride": [1, 1]}));
                spatial = true;
            }
            // a feedback block whose layer is a deconvolution (the remaining layer kind a block can hold)
            "fbd" => {
                // (after a flat layer a block of spatial layers is not accepted by the library: a dense block there)
                let inner = if spatial || (i == 0 && first_spatial) {
                    json!({"kind": "deconv", "filters": 1, "kernel": [3, 3], "stride": [1, 1], "padding": [1, 1], "act": "tanh", "dropout": d})
                } else {
                    json!({"kind": "dense", "out": 16, "act": "tanh", "bias": true, "dropout": d})
                };
                layers.push(json!({"kind": "feedback", "loops": 2, "acc": "mean", "layers": [inner]}));
            }
            // a dense block with input AND output skips (in a spatial position: a plain convolution block -- blocks of spatial
            // layers with skips in front of a dense layer cannot be trained by the library)
            "fbs" => {
                if spatial || (i == 0 && first_spatial) {
                    let inner = json!({"kind": "conv", "filters": 1, "kernel": [3, 3], "stride": [1, 1], "padding": [1, 1], "act": "tanh", "dropout": d});
                    layers.push(json!({"kind": "feedback", "loops": 2, "acc": "mean", "layers": [inner]}));
                } else {
                    // (a dense block WITH skips directly in front of a spatial layer cannot be trained by the library either --
                    // flat vs spatial gradient in Feedback::backward, DESIGN section 7 -- there the block has no skips)
                    let next_spatial = kinds.get(i + 1).map(|n| ["conv", "deconv", "conv1", "pool"].contains(&n.as_str())).unwrap_or(false);
                    let inner = json!({"kind": "dense", "out": 16, "act": "tanh", "bias": true, "dropout": d});
                    layers.push(json!({"kind": "feedback", "loops": 2, "acc": "mean", "inskips": !next_spatial, "outskips": !next_spatial, "layers": [inner]}));
                }
            }
            "fb" => {
                let inner = if spatial || (i == 0 && first_spatial) {
                    json!({"kind": "conv", "filters": 1, "kernel": [3, 3], "stride": [1, 1], "padding": [1, 1], "act": "tanh", "dropout": d})
                } else {
                    json!({"kind": "dense", "out": 16, "act": "tanh", "bias": true, "dropout": d})
                };
                layers.push(json!({"kind": "feedback", "loops": 2, "acc": "mean", "layers": [inner]}));
            }
            _ => panic!("harness: unknown kind {}", k),
        }
    }
    layers.push(json!({"kind": "dense", "out": 2, "act": "linear", "bias": true}));
    json!({"input": if first_spatial { json!([1, 4, 4]) } else { json!([16]) }, "out": 2, "ints": false,
           "layers": layers, "objective": {"kind": "mse"}, "optimizer": {"kind": "sgd", "lr": 0.05}})
}

fn without_dropout(arch: &Value) -> Value {
    fn strip(v: &Value) -> Value {
        match v {
            Value::Object(m) => {
                let mut o = serde_json::Map::new();
                for (k, x) in m {
                    if k != "dropout" {
                        o.insert(k.clone(), strip(x));
                    }
                }
                Value::Object(o)
            }
            Value::Array(a) => Value::Array(a.iter().map(strip).collect()),
            _ => v.clone(),
        }
    }
    strip(arch)
}

fn bits_of(v: &[f32]) -> Vec<u32> {
    v.iter().map(|x| x.to_bits()).collect()
}

fn replay_flags(case: &Value, rep: &mut Report, rng: &mut Rng) {
    let p = &case["p"];
    let kinds: Vec<String> = p["kinds"].as_array().unwrap().iter().map(|k| k.as_str().unwrap().to_string()).collect();
    // dropout on every layer that can have it (first variant) or on a seeded subset (second variant)
    let all: Vec<bool> = kinds.iter().map(|k| k != "pool").collect();
    let some: Vec<bool> = kinds.iter().map(|k| k != "pool" && rng.below(2) == 0).collect();
    for drop in [all, some] {
        let arch = flags_arch(&kinds, &drop);
        replay_flags_variant(case, rep, rng, &kinds, &drop, arch);
    }
    // the same layout with ReLU layers (exact zeros in inference mode too) and a skip connection whose target follows a
    // layer with dropout: a zero is not evidence of a dropped unit
    if kinds.len() >= 2 && kinds.iter().all(|k| k == "dense") {
        let drop: Vec<bool> = kinds.iter().map(|_| true).collect();
        let mut arch = flags_arch(&kinds, &drop);
        for l in arch["layers"].as_array_mut().unwrap().iter_mut() {
            if l["act"] == "tanh" {
                l["act"] = json!("relu");
            }
        }
        arch["connect"] = json!([[0, kinds.len()]]);
        arch["name"] = json!("relu-skip");
        replay_flags_variant(case, rep, rng, &kinds, &drop, arch);
    }
    if kinds.len() == 1 && kinds[0] == "dense" {
        replay_flags_append(case, rep, rng);
    }
}

/// Train, append a new head WITH dropout, train again: when the second call returns every layer -- also the one that did
/// not exist during the first call -- is in inference mode, and the network predicts like its dropout-free twin.
fn replay_flags_append(case: &Value, rep: &mut Report, rng: &mut Rng) {
    let p = &case["p"];
    let (n, b, e) = (usize_of(p, "n"), usize_of(p, "b"), usize_of(p, "e"));
    let id = format!("training:flags:append:b{}e{}", b, e);
    let body = json!({"input": [8], "out": 8, "ints": false,
                      "layers": [{"kind": "dense", "out": 8, "act": "tanh", "bias": true, "dropout": 0.5},
                                 {"kind": "dense", "out": 8, "act": "tanh", "bias": true}],
                      "objective": {"kind": "mse"}, "optimizer": {"kind": "sgd", "lr": 0.05}});
    let head = json!({"kind": "dense", "out": 4, "act": "tanh", "bias": true, "dropout": 0.5});
    let mut full = body.clone();
    full["layers"].as_array_mut().unwrap().push(head.clone());
    full["out"] = json!(4);
    rep.checks += 1;
    let res = guarded(|| {
        let mut net = nets::build(&body);
        nets::randomize_floats(&mut net, &body, rng, 0.8);
        let d1 = arch_dataset(&body, n.max(1), rng);
        net.learn(&refs(&d1.inputs), &refs(&d1.targets), None, b, e.max(1) as i32, None);
        nets::add_layer(&mut net, &head);
        net.set_optimizer(nets::optimizer_from(&full["optimizer"]));
        let d2 = arch_dataset(&full, n.max(1), rng);
        net.learn(&refs(&d2.inputs), &refs(&d2.targets), None, b, e.max(1) as i32, None);
        let mut twin = nets::build(&without_dropout(&full));
        nets::copy_params(&net, &mut twin);
        let pa: Vec<Vec<f32>> = d2.inputs.iter().map(|x| flat(&net.predict(x))).collect();
        let pt: Vec<Vec<f32>> = d2.inputs.iter().map(|x| flat(&twin.predict(x))).collect();
        (verif::flags(&net.layers), pa, pt)
    });
    match res {
        Err(msg) => rep.mismatch("C09", "learn_panicked", &id, json!({"panic": msg, "phase": "append"}), case),
        Ok((flags, pa, pt)) => {
            if flags.iter().any(|f| *f) {
                rep.mismatch("C09", "training_flag_left_on_after_learn", &id, json!({"flags": flags, "phase": "layer appended between two learn calls"}), case);
            }
            if pa.iter().zip(pt.iter()).any(|(x, y)| bits_of(x) != bits_of(y)) {
                rep.mismatch("C09", "predict_after_learn_differs_from_dropout_free_network", &id, json!({"phase": "layer appended between two learn calls"}), case);
            }
        }
    }
}

fn replay_flags_variant(case: &Value, rep: &mut Report, rng: &mut Rng, kinds: &[String], drop: &[bool], arch: Value) {
    let p = &case["p"];
    let (n, b, e, hasval, tol) = (usize_of(p, "n"), usize_of(p, "b"), usize_of(p, "e"), bool_of(p, "hasval"), usize_of(p, "tol"));
    let id = format!("training:flags:{:?}:{:?}:b{}e{}val{}{}", kinds, drop, b, e, hasval, arch.get("name").and_then(|v| v.as_str()).unwrap_or(""));
    let plain = without_dropout(&arch);
    let data = arch_dataset(&arch, n, rng);
    // the model evaluates validation data in chunks of an abstract size; the implementation's chunk holds 64 samples:
    // keep the NUMBER of chunks (and the size of the last one), so that "several chunks" means more than 64 samples
    let (nval_model, chunk_model) = (usize_of(p, "nval").max(1), p["chunk"].as_u64().unwrap_or(1).max(1) as usize);
    let chunks = (nval_model + chunk_model - 1) / chunk_model;
    let nval_impl = if chunks <= 1 { nval_model } else { 64 * (chunks - 1) + (nval_model - chunk_model * (chunks - 1)) };
    let vdata = arch_dataset(&arch, nval_impl, rng);
    if drop.iter().any(|d| *d) {
        rep.nontrivial(id.clone());
    }

    // (a) frozen weights (gradient clamp (0,0)): every per-epoch validation metric reported by `learn`
    //     must be exactly `validate` of the dropout-free twin with the same weights.
    let mut frozen = arch.clone();
    frozen["objective"] = json!({"kind": "mse", "clamp": [0, 0]});
    let mut plain_frozen = plain.clone();
    plain_frozen["objective"] = json!({"kind": "mse", "clamp": [0, 0]});
    let build2 = guarded(|| {
        let mut a = nets::build(&frozen);
        nets::randomize_floats(&mut a, &frozen, rng, 0.8);
        let mut t = nets::build(&plain_frozen);
        nets::copy_params(&a, &mut t);
        (a, t)
    });
    let (mut a, mut twin) = match build2 {
        Ok(x) => x,
        Err(msg) => {
            rep.mismatch("C09", "architecture_rejected", &id, json!({"panic": msg}), case);
            return;
        }
    };
    // the same with a validation set of exactly ONE sample (frozen weights: the twin stays valid), before the main run
    if hasval && e >= 1 {
        rep.checks += 1;
        let one = guarded(|| {
            let (xr, yr) = (refs(&data.inputs), refs(&data.targets));
            let (vx1, vy1) = (vec![&vdata.inputs[0]], vec![&vdata.targets[0]]);
            let (_, vl, va) = a.learn(&xr, &yr, Some((&vx1, &vy1, tol as i32)), b, 1, None);
            (vl, va, twin.validate(&vx1, &vy1, 1e-6))
        });
        match one {
            Err(msg) => rep.mismatch("C09", "learn_panicked", &id, json!({"panic": msg, "validation_samples": 1}), case),
            Ok((vl, va, reference)) => {
                if vl.len() != 1 || vl[0].to_bits() != reference.0.to_bits() || va[0].to_bits() != reference.1.to_bits() {
                    rep.mismatch("C09", "validation_metric_during_training_uses_dropout", &id,
                                 json!({"validation_samples": 1, "reported": [vl, va], "dropout_free": [reference.0, reference.1]}), case);
                }
            }
        }
    }
    rep.checks += 1;
    let res = guarded(|| {
        let (xr, yr, vx, vy) = (refs(&data.inputs), refs(&data.targets), refs(&vdata.inputs), refs(&vdata.targets));
        let val = if hasval { Some((&vx, &vy, tol as i32)) } else { None };
        let out = a.learn(&xr, &yr, val, b, e as i32, None);
        let after = a.validate(&vx, &vy, 1e-6);
        let reference = twin.validate(&vx, &vy, 1e-6);
        let pa: Vec<Vec<f32>> = vx.iter().map(|x| flat(&a.predict(x))).collect();
        let pt: Vec<Vec<f32>> = vx.iter().map(|x| flat(&twin.predict(x))).collect();
        (out, after, reference, pa, pt, verif::flags(&a.layers))
    });
    match res {
        Err(msg) => rep.mismatch("C09", "learn_panicked", &id, json!({"panic": msg}), case),
        Ok(((_, val, acc), after, reference, pa, pt, flags_after)) => {
            for (i, v) in val.iter().enumerate() {
                if v.to_bits() != reference.0.to_bits() || acc[i].to_bits() != reference.1.to_bits() {
                    rep.mismatch(
                        "C09",
                        "validation_metric_during_training_uses_dropout",
                        &id,
                        json!({"epoch": i + 1, "reported_loss": v, "dropout_free_loss": reference.0, "reported_acc": acc[i], "dropout_free_acc": reference.1}),
                        case,
                    );
                    break;
                }
            }
            if after.0.to_bits() != reference.0.to_bits() || after.1.to_bits() != reference.1.to_bits() {
                rep.mismatch("C09", "validate_after_learn_uses_dropout", &id, json!({"after": [after.0, after.1], "dropout_free": [reference.0, reference.1]}), case);
            }
            if pa.iter().zip(pt.iter()).any(|(x, y)| bits_of(x) != bits_of(y)) {
                rep.mismatch("C09", "predict_after_learn_differs_from_dropout_free_network", &id, json!({}), case);
            }
            if flags_after.iter().any(|f| *f) {
                rep.mismatch("C09", "training_flag_left_on_after_learn", &id, json!({"flags": flags_after}), case);
            }
        }
    }

    // (b) real training: afterwards the network predicts exactly like the dropout-free network holding its weights
    let res = guarded(|| {
        let mut a = nets::build(&arch);
        nets::randomize_floats(&mut a, &arch, rng, 0.8);
        let (xr, yr, vx, vy) = (refs(&data.inputs), refs(&data.targets), refs(&vdata.inputs), refs(&vdata.targets));
        let val = if hasval { Some((&vx, &vy, tol as i32)) } else { None };
        let (_, vl, va) = a.learn(&xr, &yr, val, b, e as i32, None);
        let mut t = nets::build(&plain);
        nets::copy_params(&a, &mut t);
        let pa: Vec<Vec<f32>> = vx.iter().map(|x| flat(&a.predict(x))).collect();
        let pt: Vec<Vec<f32>> = vx.iter().map(|x| flat(&t.predict(x))).collect();
        let last = if hasval && !vl.is_empty() { Some((vl[vl.len() - 1], va[va.len() - 1])) } else { None };
        (pa, pt, last, t.validate(&vx, &vy, 1e-6))
    });
    rep.checks += 1;
    match res {
        Err(msg) => rep.mismatch("C09", "learn_panicked", &id, json!({"panic": msg, "phase": "training"}), case),
        Ok((pa, pt, last, tv)) => {
            if pa.iter().zip(pt.iter()).any(|(x, y)| bits_of(x) != bits_of(y)) {
                rep.mismatch("C09", "predict_after_learn_differs_from_dropout_free_network", &id, json!({"phase": "training"}), case);
            }
            // the last epoch's validation metrics were computed on the final weights
            if let Some((l, acc)) = last {
                if l.to_bits() != tv.0.to_bits() || acc.to_bits() != tv.1.to_bits() {
                    rep.mismatch(
                        "C09",
                        "validation_metric_during_training_uses_dropout",
                        &id,
                        json!({"phase": "training", "reported": [l, acc], "dropout_free": [tv.0, tv.1]}),
                        case,
                    );
                }
            }
        }
    }
}

pub fn replay_training(case: &Value, rep: &mut Report, rng: &mut Rng) {
    match str_of(case, "mode") {
        "schedule" => replay_schedule(case, rep, rng),
        "earlystop" => replay_earlystop(case, rep),
        "flags" => replay_flags(case, rep, rng),
        m => panic!("harness: unknown training mode {}", m),
    }
}

// ------------------------------------------------------------------------------------------------
// Recording drivers (implementation -> specification)
// ------------------------------------------------------------------------------------------------

fn flagged_of(arch: &Value) -> Vec<i64> {
    let mut out = Vec::new();
    for l in arch["layers"].as_array().unwrap() {
        match str_of(l, "kind") {
            "pool" => out.push(0),
            "feedback" => {
                let loops = usize_of(l, "loops");
                for _ in 0..loops {
                    for inner in l["layers"].as_array().unwrap() {
                        out.push(if str_of(inner, "kind") == "pool" { 0 } else { 1 });
                    }
                }
            }
            _ => out.push(1),
        }
    }
    out
}

fn push_hook_events(trace: &mut Vec<Value>, lines: Vec<String>, keep_opt: bool) {
    for line in lines {
        let v: Value = serde_json::from_str(&line).expect("hook event json");
        if !keep_opt && v["event"] == "OptUpdate" {
            continue;
        }
        trace.push(v);
    }
}

pub struct RunSpec {
    pub arch: Value,
    pub n: usize,
    pub batch: usize,
    pub epochs: usize,
    pub nval: usize,
    pub tol: usize,
    pub threads: usize,
    pub jitter: u64,
    pub data_seed: u64,
}

pub struct RunResult {
    pub train: Vec<f32>,
    pub val: Vec<f32>,
    pub acc: Vec<f32>,
    pub weights: Vec<u32>,
    pub validate: (f32, f32),
    pub predictions: Vec<u32>,
    /// predict() of the same inputs, one at a time (the sequential schedule of the batched prediction)
    pub singles: Vec<u32>,
    pub events: Vec<String>,
}

/// One complete job: build the network from scratch, install seeded weights, learn (hooks recording),
/// validate, predict_batch -- inside a rayon pool of the requested size.
pub fn run_job(spec: &RunSpec, user_validate_event: bool) -> Result<RunResult, String> {
    let pool = rayon::ThreadPoolBuilder::new().num_threads(spec.threads).build().map_err(|e| e.to_string())?;
    run_job_in(&pool, spec, user_validate_event)
}

/// The same job inside a pool the caller owns (so that several jobs can share the worker threads).
pub fn run_job_in(pool: &rayon::ThreadPool, spec: &RunSpec, user_validate_event: bool) -> Result<RunResult, String> {
    guarded(|| {
        pool.install(|| {
            let mut rng = Rng::new(spec.data_seed);
            let mut net = nets::build(&spec.arch);
            init_params(&mut net, &spec.arch, &mut rng);
            let data = arch_dataset(&spec.arch, spec.n, &mut rng);
            let vdata = arch_dataset(&spec.arch, spec.nval.max(1), &mut rng);
            let (xr, yr, vx, vy) = (refs(&data.inputs), refs(&data.targets), refs(&vdata.inputs), refs(&vdata.targets));
            verif::register_samples(&xr);
            verif::set_jitter(spec.jitter);
            verif::start();
            // (validate scores flat outputs only: an image-to-image job trains without validation data)
            let image = spec.arch.get("image_target").is_some();
            let val = if spec.nval > 0 && !image { Some((&vx, &vy, spec.tol as i32)) } else { None };
            let (train, vl, va) = net.learn(&xr, &yr, val, spec.batch, spec.epochs as i32, None);
            if user_validate_event && !image {
                verif::emit("UserValidate", "");
            }
            let validate = if image { (0.0, 0.0) } else { net.validate(&vx, &vy, 0.25) };
            let events = verif::take();
            verif::set_jitter(0);
            let many: Vec<&Tensor> = (0..150).map(|i| vx[i % vx.len()]).collect();
            let preds = net.predict_batch(&many);
            RunResult {
                train,
                val: vl,
                acc: va,
                weights: nets::param_bits(&net),
                validate,
                predictions: preds.iter().flat_map(|t| nets::tensor_bits(t)).collect(),
                singles: many.iter().flat_map(|x| nets::tensor_bits(&net.predict(x))).collect(),
                events,
            }
        })
    })
}

/// (epoch, sample) -> bits of the per-sample training loss, from the SampleDone events of a run.
fn sample_losses(events: &[String]) -> std::collections::BTreeMap<(i64, i64), i64> {
    let mut m = std::collections::BTreeMap::new();
    for line in events {
        if let Ok(v) = serde_json::from_str::<Value>(line) {
            if v["event"] == "SampleDone" {
                m.insert((v["epoch"].as_i64().unwrap_or(0), v["sample"].as_i64().unwrap_or(-1)), v["loss_bits"].as_i64().unwrap_or(-1));
            }
        }
    }
    m
}

/// Recompute every epoch's training loss from the logged per-sample losses and compare with what `learn` returned.
fn epoch_loss_mismatch(events: &[String], train: &[f32], batch: usize) -> Option<Value> {
    let mut per_epoch: std::collections::BTreeMap<i64, std::collections::BTreeMap<i64, f32>> = Default::default();
    for line in events {
        let v: Value = serde_json::from_str(line).ok()?;
        if v["event"] == "SampleDone" {
            let bits = v["loss_bits"].as_i64()? as u32;
            per_epoch.entry(v["epoch"].as_i64()?).or_default().insert(v["sample"].as_i64()?, f32::from_bits(bits));
        }
    }
    for (e, losses) in per_epoch.iter() {
        let ordered: Vec<f32> = losses.values().cloned().collect();
        let groups: Vec<&[f32]> = ordered.chunks(batch).collect();
        let mean: f32 = groups.iter().map(|g| g.iter().sum::<f32>() / g.len() as f32).sum::<f32>() / groups.len() as f32;
        let got = *train.get(*e as usize - 1)?;
        if !close(got, mean, 1e-5) {
            return Some(json!({"epoch": e, "reported": got, "mean_of_group_means": mean, "groups": groups.len()}));
        }
    }
    None
}

/// The groups `learn` formed, as its hooks logged them (Batch .. SampleDone* .. Update), in the form `run_reference`
/// executes: one update per group with the logged step number, the group's samples in index order.
fn logged_schedule(events: &[String]) -> (Value, Value) {
    let (mut updates, mut train): (Vec<Value>, Vec<Vec<Value>>) = (Vec::new(), Vec::new());
    let mut group: Vec<i64> = Vec::new();
    for line in events {
        let v: Value = match serde_json::from_str(line) {
            Ok(v) => v,
            Err(_) => continue,
        };
        match v["event"].as_str().unwrap_or("") {
            "Batch" => {
                group.clear();
                let e = v["epoch"].as_i64().unwrap_or(1) as usize;
                while train.len() < e {
                    train.push(Vec::new());
                }
            }
            "SampleDone" => group.push(v["sample"].as_i64().unwrap_or(0) + 1),
            "Update" => {
                group.sort();
                updates.push(json!({"step": v["stepnr"], "grads": group.iter().map(|s| json!({"s": s})).collect::<Vec<_>>()}));
                if let Some(last) = train.last_mut() {
                    last.push(json!(group));
                }
                group.clear();
            }
            _ => (),
        }
    }
    (json!(updates), json!(train))
}

/// C04 on a recorded run: the weights `learn` ends with equal the descent that executes the logged groups (which the
/// trace specification validates against the model) with the implementation's own primitives: one step per group on
/// the sum of the per-sample gradients at the pre-step weights.  Only for architectures without dropout.
fn descent_mismatch(spec: &RunSpec, res: &RunResult) -> Option<Value> {
    if spec.arch.to_string().contains("\"dropout\"") {
        return None;
    }
    let (updates, train) = logged_schedule(&res.events);
    let out = guarded(|| {
        let mut rng = Rng::new(spec.data_seed);
        let mut net = nets::build(&spec.arch);
        init_params(&mut net, &spec.arch, &mut rng);
        let data = arch_dataset(&spec.arch, spec.n, &mut rng);
        run_reference(&mut net, &spec.arch, &data, &updates, &train);
        nets::all_params(&net).into_iter().flatten().collect::<Vec<f32>>()
    });
    let want = match out {
        Ok(w) => w,
        Err(e) => return Some(json!({"reference_panicked": e})),
    };
    let got: Vec<f32> = res.weights.iter().map(|b| f32::from_bits(*b)).collect();
    if want.iter().chain(got.iter()).any(|x| !x.is_finite()) {
        return None;
    }
    diff_flat_close(&got, &want, 1e-5).map(|d| json!({"diff": d, "groups": updates.as_array().map(|a| a.len())}))
}

fn net_event(run: usize, spec: &RunSpec) -> Value {
    json!({"event": "Net", "run": run, "n": spec.n, "batch": spec.batch, "epochs": spec.epochs,
           "has_val": spec.nval > 0, "tol": spec.tol, "nval": spec.nval.max(1), "flagged": flagged_of(&spec.arch),
           "threads": spec.threads, "arch": spec.arch.get("name").cloned().unwrap_or(Value::Null)})
}

fn driver_archs(rng: &mut Rng) -> Vec<Value> {
    let mut archs = architectures();
    let kinds_menu = ["dense", "softmax", "conv", "conv1", "deconv", "pool", "fb", "fbd", "fbs"];
    for _ in 0..4 {
        let k = rng.range(1, 4) as usize;
        let kinds: Vec<String> = (0..k).map(|_| rng.pick(&kinds_menu).to_string()).collect();
        let drop: Vec<bool> = kinds.iter().map(|x| x != "pool" && rng.below(3) != 0).collect();
        let mut a = flags_arch(&kinds, &drop);
        a["name"] = json!(format!("flags:{:?}", kinds));
        archs.push(a);
    }
    // a one-parameter model with a diverging learning rate: the validation loss rises, early stopping fires
    archs.push(json!({"name": "diverging", "ints": false, "input": [1], "out": 1,
                      "layers": [{"kind": "dense", "out": 1, "act": "linear", "bias": false}],
                      "objective": {"kind": "mse"}, "optimizer": {"kind": "sgd", "lr": 1.6}}));
    archs
}

/// Mixed runs for C04 / C09 / C13: random architectures (incl. dropout layouts), N, B, E, validation on/off,
/// thread pools of several sizes with jitter; the hook events of each run form one segment of the trace.
pub fn record_training(seed: u64, tier: &str, trace: &mut Vec<Value>, rep: &mut Report) {
    let mut rng = Rng::new(seed ^ 0x7A11);
    let runs = if tier == "thorough" { 120 } else { 16 };
    let archs = driver_archs(&mut rng);
    let mut stops = 0u64;
    for run in 0..runs {
        let arch = archs[run % archs.len()].clone();
        let diverging = arch["name"] == "diverging";
        // every eighth run (and the first): a group of more than 64 samples (the evaluation paths chunk by 64)
        let big = !diverging && run % 8 == 0;
        let n = if big { rng.range(65, if tier == "thorough" { 200 } else { 140 }) as usize } else { rng.range(1, if tier == "thorough" { 40 } else { 12 }) as usize };
        let with_val = diverging || rng.below(2) == 0;
        let spec = RunSpec {
            arch,
            n,
            batch: if big { rng.range(65, n as i64 + 2) as usize } else { rng.range(1, n as i64 + 2) as usize },
            // (one run in eleven has an epoch budget of zero: LearnBegin is followed directly by LearnEnd)
            epochs: if diverging { 8 } else if run % 11 == 3 { 0 } else { rng.range(1, 4) as usize },
            nval: if with_val { *rng.pick(&[1usize, 3, 64, 65, 130]) } else { 0 },
            tol: rng.range(1, 3) as usize,
            threads: *rng.pick(&[1usize, 2, 3, 4, 8]),
            jitter: rng.next() | 1,
            data_seed: rng.next(),
        };
        trace.push(net_event(run, &spec));
        rep.checks += 1;
        match run_job(&spec, true) {
            Ok(res) => {
                if res.train.len() < spec.epochs {
                    stops += 1;
                }
                // C04, loss clause, on the recorded run: the reported epoch loss is the mean over the epoch's groups of the
                // mean per-sample loss (per-sample losses as logged by the SampleDone hook, in sample order)
                if let Some(d) = epoch_loss_mismatch(&res.events, &res.train, spec.batch) {
                    rep.mismatch("C04", "reported_train_loss_is_not_mean_of_group_means", &format!("run{}", run), d, &json!({"run": run, "arch": spec.arch["name"], "n": spec.n, "batch": spec.batch}));
                }
                rep.checks += 1;
                if let Some(d) = descent_mismatch(&spec, &res) {
                    rep.mismatch("C04", "weights_differ_from_descent_over_logged_groups", &format!("run{}", run), d, &json!({"run": run, "arch": spec.arch["name"], "n": spec.n, "batch": spec.batch, "epochs": spec.epochs}));
                }
                push_hook_events(trace, res.events, false);
                rep.nontrivial(format!("run{}", run));
            }
            Err(msg) => {
                // a panic inside learn is data: the trace ends here and will not be a complete behaviour
                push_hook_events(trace, verif::take(), false);
                rep.mismatch("C04", "learn_panicked_in_driver", &format!("run{}", run), json!({"panic": msg, "arch": spec.arch}), &json!({"run": run}));
            }
        }
        rep.cases += 1;
    }
    rep.count("trace_runs", runs as u64);
    rep.count("early_stops_observed", stops);
}

/// Jobs for C05: every layer kind, batch > 1, > 64 evaluation inputs, dropout, skip and loop connections,
/// feedback blocks with both skip kinds and three loops, every optimizer family.  Float data.
pub fn thread_jobs() -> Vec<Value> {
    vec![
        json!({"name": "cnn-sgdm", "ints": false, "input": [1, 6, 6], "out": 3,
               "layers": [{"kind": "conv", "filters": 2, "kernel": [3, 3], "stride": [1, 1], "padding": [1, 1], "act": "relu", "dropout": 0.2},
                          {"kind": "pool", "kernel": [2, 2], "stride": [2, 2]},
                          {"kind": "dense", "out": 3, "act": "linear", "bias": true}],
               "objective": {"kind": "mse"}, "optimizer": {"kind": "sgdm", "lr": 0.01, "momentum": 0.9, "dampening": 0.1}}),
        json!({"name": "deconv-fb-rmsprop", "ints": false, "input": [1, 4, 4], "out": 2,
               "layers": [{"kind": "deconv", "filters": 1, "kernel": [3, 3], "stride": [1, 1], "padding": [1, 1], "act": "tanh"},
                          {"kind": "feedback", "loops": 3, "acc": "mean",
                           "layers": [{"kind": "conv", "filters": 1, "kernel": [3, 3], "stride": [1, 1], "padding": [1, 1], "act": "tanh"}]},
                          {"kind": "dense", "out": 2, "act": "linear", "bias": false}],
               "objective": {"kind": "mse"}, "optimizer": {"kind": "rmsprop", "lr": 0.001, "alpha": 0.9, "momentum": 0.5, "centered": true}}),
        json!({"name": "mlp-dropout-skip-loop-adam", "ints": false, "input": [6], "out": 2,
               "layers": [{"kind": "dense", "out": 6, "act": "tanh", "bias": true, "dropout": 0.3},
                          {"kind": "dense", "out": 6, "act": "tanh", "bias": true},
                          {"kind": "dense", "out": 6, "act": "sigmoid", "bias": true, "dropout": 0.3},
                          {"kind": "dense", "out": 2, "act": "linear", "bias": true}],
               "connect": [[0, 2]], "loopback": [{"outof": 1, "into": 1, "iterations": 2, "inskips": true}],
               "accumulation": {"skip": "add", "loop": "mean"},
               "objective": {"kind": "mse"}, "optimizer": {"kind": "adam", "lr": 0.01}}),
        json!({"name": "mlp-shared-source-skips-sgdm", "ints": false, "input": [5], "out": 2,
               "layers": [{"kind": "dense", "out": 5, "act": "tanh", "bias": true},
                          {"kind": "dense", "out": 5, "act": "tanh", "bias": true},
                          {"kind": "dense", "out": 5, "act": "sigmoid", "bias": false},
                          {"kind": "dense", "out": 5, "act": "tanh", "bias": true},
                          {"kind": "dense", "out": 5, "act": "tanh", "bias": true},
                          {"kind": "dense", "out": 2, "act": "linear", "bias": true}],
               "connect": [[1, 2], [1, 3], [1, 4], [0, 1]], "accumulation": {"skip": "add", "loop": "mean"},
               "objective": {"kind": "mse"}, "optimizer": {"kind": "sgdm", "lr": 0.02, "momentum": 0.7, "dampening": 0.1}}),
        // the same depth and number of skips as the job above, at other endpoints (anything a worker thread keeps
        // between calls must not leak from one network into the next)
        json!({"name": "mlp-other-skips-sgdm", "ints": false, "input": [5], "out": 2,
               "layers": [{"kind": "dense", "out": 5, "act": "tanh", "bias": true},
                          {"kind": "dense", "out": 5, "act": "tanh", "bias": true},
                          {"kind": "dense", "out": 5, "act": "sigmoid", "bias": false},
                          {"kind": "dense", "out": 5, "act": "tanh", "bias": true},
                          {"kind": "dense", "out": 5, "act": "tanh", "bias": true},
                          {"kind": "dense", "out": 2, "act": "linear", "bias": true}],
               "connect": [[0, 2], [2, 3], [0, 4], [1, 5]], "accumulation": {"skip": "add", "loop": "mean"},
               "objective": {"kind": "mse"}, "optimizer": {"kind": "sgdm", "lr": 0.02, "momentum": 0.7, "dampening": 0.1}}),
        // intermediate values that are SUBNORMAL (inputs ~1e-19, first layer ~1e-20, second ~1e20): per-thread floating-point
        // modes (flush-to-zero) must not make the result depend on which thread computed a sample
        json!({"name": "mlp-subnormal-intermediates-sgd", "ints": false, "input": [3], "out": 2,
               "layer_scales": [1.0e-20, 1.0e20], "input_scale": 1.0e-19,
               "layers": [{"kind": "dense", "out": 3, "act": "linear", "bias": false},
                          {"kind": "dense", "out": 2, "act": "linear", "bias": false}],
               "objective": {"kind": "mse"}, "optimizer": {"kind": "sgd", "lr": 0.01}}),
        // binary masks with equally many set cells through PADDED convolutions: nothing keyed by a summary of a sample may be
        // shared between the samples of a group
        json!({"name": "cnn-padded-permuted-masks-sgd", "ints": false, "input": [1, 6, 6], "out": 2, "permuted_inputs": true,
               "layers": [{"kind": "conv", "filters": 2, "kernel": [3, 3], "stride": [1, 1], "padding": [1, 1], "act": "tanh"},
                          {"kind": "conv", "filters": 1, "kernel": [3, 3], "stride": [1, 1], "padding": [2, 1], "act": "tanh"},
                          {"kind": "dense", "out": 2, "act": "linear", "bias": true}],
               "objective": {"kind": "mse"}, "optimizer": {"kind": "sgd", "lr": 0.05}}),
        // image to image: the last layer is a convolution with eight output channels, the targets are volumes
        json!({"name": "image-to-image-eight-channels-adam", "ints": false, "input": [1, 5, 5], "out": 2, "image_target": [8, 5, 5],
               "layers": [{"kind": "conv", "filters": 3, "kernel": [3, 3], "stride": [1, 1], "padding": [1, 1], "act": "tanh"},
                          {"kind": "conv", "filters": 8, "kernel": [3, 3], "stride": [1, 1], "padding": [1, 1], "act": "sigmoid"}],
               "objective": {"kind": "mse"}, "optimizer": {"kind": "adam", "lr": 0.01}}),
        // a soft-max over 24 classes (its normaliser is a sum of 24 exponentials per sample)
        json!({"name": "mlp-wide-softmax-adamw", "ints": false, "input": [6], "out": 24, "onehot": true,
               "layers": [{"kind": "dense", "out": 10, "act": "tanh", "bias": true},
                          {"kind": "dense", "out": 24, "act": "softmax", "bias": true}],
               "objective": {"kind": "ce"}, "optimizer": {"kind": "adamw", "lr": 0.01, "decay": 0.01}}),
        // six filters in a convolution that is not the first layer (its input gradient sums over the filters)
        json!({"name": "cnn-six-filters-adam", "ints": false, "input": [1, 5, 5], "out": 2,
               "layers": [{"kind": "conv", "filters": 2, "kernel": [2, 2], "stride": [1, 1], "padding": [0, 0], "act": "tanh"},
                          {"kind": "conv", "filters": 6, "kernel": [3, 3], "stride": [1, 1], "padding": [1, 1], "act": "tanh"},
                          {"kind": "deconv", "filters": 5, "kernel": [2, 2], "stride": [1, 1], "padding": [0, 0], "act": "tanh"},
                          {"kind": "dense", "out": 2, "act": "linear", "bias": true}],
               "objective": {"kind": "mse"}, "optimizer": {"kind": "adam", "lr": 0.01}}),
        // overlapping pooling windows (3 x 3, stride 1): one input position is the maximum of several windows, so its
        // gradient is a sum of several contributions
        json!({"name": "cnn-overlapping-pool-adam", "ints": false, "input": [1, 7, 7], "out": 2,
               "layers": [{"kind": "conv", "filters": 2, "kernel": [3, 3], "stride": [1, 1], "padding": [1, 1], "act": "tanh"},
                          {"kind": "pool", "kernel": [3, 3], "stride": [1, 1]},
                          {"kind": "dense", "out": 2, "act": "linear", "bias": true}],
               "objective": {"kind": "mse"}, "optimizer": {"kind": "adam", "lr": 0.01}}),
        // feature maps of 34 x 34 (rows and planes longer than any block a parallel loop would use)
        json!({"name": "cnn-large-maps-sgdm", "ints": false, "input": [1, 34, 34], "out": 2,
               "layers": [{"kind": "conv", "filters": 2, "kernel": [3, 3], "stride": [1, 1], "padding": [1, 1], "act": "tanh"},
                          {"kind": "pool", "kernel": [2, 2], "stride": [2, 2]},
                          {"kind": "deconv", "filters": 1, "kernel": [2, 2], "stride": [2, 2], "padding": [0, 0], "act": "tanh"},
                          {"kind": "dense", "out": 2, "act": "linear", "bias": true}],
               "objective": {"kind": "mse"}, "optimizer": {"kind": "sgdm", "lr": 0.001, "momentum": 0.5}}),
        // rows of 600 elements in the first dense layer (longer than any block a parallel reduction would use)
        json!({"name": "mlp-wide-input-adam", "ints": false, "input": [600], "out": 2,
               "layers": [{"kind": "dense", "out": 4, "act": "tanh", "bias": true},
                          {"kind": "dense", "out": 2, "act": "linear", "bias": true}],
               "objective": {"kind": "mse"}, "optimizer": {"kind": "adam", "lr": 0.01}}),
        json!({"name": "fbdense-5loops-adamw-ce", "ints": false, "input": [5], "out": 3, "onehot": true,
               "layers": [{"kind": "feedback", "loops": 5, "acc": "mean", "inskips": true, "outskips": true,
                           "layers": [{"kind": "dense", "out": 5, "act": "tanh", "bias": true, "dropout": 0.2}]},
                          {"kind": "dense", "out": 3, "act": "softmax", "bias": true}],
               "objective": {"kind": "ce"}, "optimizer": {"kind": "adamw", "lr": 0.01, "decay": 0.01}}),
    ]
}

fn completion_orders(events: &[String], acc: &mut std::collections::HashSet<String>) {
    // completion order of every batch (SampleDone events between a Batch and its first Reduce)
    let mut cur: Vec<i64> = Vec::new();
    for line in events {
        let v: Value = serde_json::from_str(line).unwrap();
        match v["event"].as_str().unwrap_or("") {
            "Batch" => cur.clear(),
            "SampleDone" => cur.push(v["sample"].as_i64().unwrap()),
            "Update" => {
                if cur.len() > 1 {
                    let mut sorted = cur.clone();
                    sorted.sort();
                    if sorted != cur {
                        acc.insert(format!("{:?}", cur));
                    } else {
                        acc.insert("in-order".to_string());
                    }
                }
                cur.clear();
            }
            _ => (),
        }
    }
}

/// C05: the same job under different pool sizes and jitter seeds must give bit-identical results.
pub fn record_threads(seed: u64, tier: &str, trace: &mut Vec<Value>, rep: &mut Report) {
    let mut rng = Rng::new(seed ^ 0xC05);
    let thread_counts: Vec<usize> = if tier == "thorough" { vec![1, 2, 3, 4, 8, 16, 32, 64] } else { vec![1, 2, 4, 16, 64] };
    let jitters = if tier == "thorough" { 6 } else { 2 };
    let mut orders = std::collections::HashSet::new();
    let mut run = 0usize;
    let mut baselines: Vec<(Value, RunSpec, RunResult)> = Vec::new();
    for job in thread_jobs() {
        let name = str_of(&job, "name").to_string();
        let data_seed = rng.next();
        // one job trains on groups of more than 64 samples (block-wise reductions must not depend on the pool either)
        let (n, batch, epochs) = if name == "mlp-other-skips-sgdm" { (rng.range(150, 170) as usize, rng.range(70, 90) as usize, 2usize) } else { (rng.range(9, 14) as usize, rng.range(3, 5) as usize, 2usize) };
        let mut baseline: Option<RunResult> = None;
        let mut first_spec: Option<RunSpec> = None;
        for &threads in thread_counts.iter() {
            for _ in 0..jitters {
                // (one job validates on 330 samples: six evaluation chunks, so that the shape of a parallel reduction shows)
                let nval = if job.get("image_target").is_some() { 0 } else if name == "mlp-wide-input-adam" { 330 } else { 70 };
                let spec = RunSpec { arch: job.clone(), n, batch, epochs, nval, tol: 3, threads, jitter: rng.next() | 1, data_seed };
                trace.push(net_event(run, &spec));
                run += 1;
                rep.checks += 1;
                match run_job(&spec, true) {
                    Err(msg) => {
                        push_hook_events(trace, verif::take(), false);
                        rep.mismatch("C05", "job_panicked", &name, json!({"panic": msg, "threads": threads}), &json!({"job": job}));
                    }
                    Ok(res) => {
                        // "predictions in input order", with the sequential schedule as the reference: element i of the batched
                        // prediction is predict(x_i), bit for bit, whatever the pool
                        if res.predictions != res.singles {
                            rep.mismatch("C05", "batched_prediction_differs_from_one_at_a_time", &name, json!({"job": name, "threads": threads}), &json!({"job": job}));
                        }
                        completion_orders(&res.events, &mut orders);
                        push_hook_events(trace, res.events.clone(), false);
                        if let Some(base) = &baseline {
                            let mut diffs = Vec::new();
                            if bits_of(&base.train) != bits_of(&res.train) { diffs.push("train loss"); }
                            if bits_of(&base.val) != bits_of(&res.val) { diffs.push("validation loss"); }
                            if bits_of(&base.acc) != bits_of(&res.acc) { diffs.push("validation accuracy"); }
                            if base.weights != res.weights { diffs.push("final weights"); }
                            if base.validate.0.to_bits() != res.validate.0.to_bits() || base.validate.1.to_bits() != res.validate.1.to_bits() { diffs.push("validate()"); }
                            if base.predictions != res.predictions { diffs.push("predict_batch()"); }
                            // every per-sample training loss as the SampleDone hook logged it (the epoch loss can hide a
                            // last-bit difference of a few samples behind its own rounding)
                            if sample_losses(&base.events) != sample_losses(&res.events) { diffs.push("per-sample training losses"); }
                            if !diffs.is_empty() {
                                rep.mismatch(
                                    "C05",
                                    "results_differ_between_runs",
                                    &name,
                                    json!({"job": name, "threads": threads, "jitter": spec.jitter, "differs": diffs,
                                           "baseline_train": base.train, "train": res.train}),
                                    &json!({"job": job, "n": n, "batch": batch, "epochs": epochs, "data_seed": data_seed}),
                                );
                            }
                        } else {
                            baseline = Some(res);
                            first_spec = Some(RunSpec { arch: job.clone(), n, batch, epochs, nval, tol: 3, threads, jitter: spec.jitter, data_seed });
                        }
                        rep.nontrivial(format!("{}:{}:{}", name, threads, spec.jitter));
                    }
                }
                rep.cases += 1;
            }
        }
        if let (Some(b), Some(sp)) = (baseline, first_spec) {
            baselines.push((job.clone(), sp, b));
        }
    }
    // "repeated runs are identical": all jobs one after the other on the SAME worker threads (two rounds, several pool
    // sizes) must reproduce what each job gave on fresh threads -- nothing a worker keeps may leak between networks
    for &threads in [1usize, 3, 8].iter() {
        let pool = match rayon::ThreadPoolBuilder::new().num_threads(threads).build() {
            Ok(p) => p,
            Err(_) => continue,
        };
        for round in 0..2 {
            for (job, sp, base) in baselines.iter() {
                let name = str_of(job, "name").to_string();
                let spec = RunSpec { arch: job.clone(), n: sp.n, batch: sp.batch, epochs: sp.epochs, nval: sp.nval, tol: sp.tol, threads,
                                     jitter: rng.next() | 1, data_seed: sp.data_seed };
                rep.checks += 1;
                match run_job_in(&pool, &spec, true) {
                    Err(msg) => {
                        let _ = verif::take();
                        rep.mismatch("C05", "job_panicked", &name, json!({"panic": msg, "threads": threads, "shared_pool": true}), &json!({"job": job}));
                    }
                    Ok(res) => {
                        let mut diffs = Vec::new();
                        if bits_of(&base.train) != bits_of(&res.train) { diffs.push("train loss"); }
                        if bits_of(&base.val) != bits_of(&res.val) { diffs.push("validation loss"); }
                        if base.weights != res.weights { diffs.push("final weights"); }
                        if base.predictions != res.predictions { diffs.push("predict_batch()"); }
                        if !diffs.is_empty() {
                            rep.mismatch("C05", "results_depend_on_what_the_worker_threads_ran_before", &name,
                                         json!({"job": name, "threads": threads, "round": round, "differs": diffs}), &json!({"job": job}));
                        }
                        rep.count("shared_pool_runs", 1);
                    }
                }
            }
        }
    }
    rep.count("trace_runs", run as u64);
    rep.count("distinct_completion_orders", orders.len() as u64);
}

// ------------------------------------------------------------------------------------------------
// Group "validate" (C12)
// ------------------------------------------------------------------------------------------------

fn argmax_last(v: &[f32]) -> usize {
    let mut best = 0;
    for i in 0..v.len() {
        if v[i] >= v[best] {
            best = i;
        }
    }
    best
}

/// The aggregation rule of the specification (ValidateSM.tla), evaluated on the implementation's own
/// predictions and per-sample losses.
fn composed_validate(net: &Network, obj: &objective::Function, xs: &[&Tensor], ys: &[&Tensor], tol: f32, softmax: bool) -> (f32, f32) {
    let mut losses = Vec::new();
    let mut accs = Vec::new();
    for (x, y) in xs.iter().zip(ys.iter()) {
        let p = net.predict(x);
        let (l, _) = obj.loss(&p, y);
        losses.push(l);
        let (pf, tf) = (flat(&p), flat(y));
        accs.push(if softmax {
            if argmax_last(&pf) == argmax_last(&tf) { 1.0 } else { 0.0 }
        } else if tf.len() == 1 {
            if (pf[0] - tf[0]).abs() < tol { 1.0 } else { 0.0 }
        } else {
            tf.iter().zip(pf.iter()).map(|(t, p)| if (t - p).abs() < tol { 1.0f32 } else { 0.0 }).sum::<f32>() / tf.len() as f32
        });
    }
    (losses.iter().sum::<f32>() / losses.len() as f32, accs.iter().sum::<f32>() / accs.len() as f32)
}

pub fn replay_validate(case: &Value, rep: &mut Report, rng: &mut Rng) {
    let ds = &case["ds"];
    let (n, len) = (usize_of(ds, "n"), usize_of(ds, "len"));
    let rule = str_of(ds, "rule");
    let tol = ds["tol2"].as_i64().unwrap() as f32 / 2.0;
    let obj_name = str_of(ds, "obj");
    let id = format!("validate:n{}len{}{}tol{}{}seed{}", n, len, rule, tol, obj_name, ds["seed"]);
    let softmax = rule == "argmax";
    // every other case builds the output layer with the OTHER activation and switches it with set_activation: what
    // validate scores by is the activation the layer has NOW
    let switched = (n + len + usize_of(ds, "seed")) % 2 == 1;
    let built_softmax = if switched { !softmax } else { softmax };
    let arch = json!({"input": [len], "layers": [{"kind": "dense", "out": len, "act": if built_softmax { "softmax" } else { "linear" }, "bias": false}],
                      "objective": {"kind": obj_name}});
    let mut net = nets::build(&arch);
    if switched {
        net.set_activation(0, crate::layers::activation(if softmax { "softmax" } else { "linear" }));
    }
    if let neurons::network::Layer::Dense(d) = &mut net.layers[0] {
        let eye: Vec<Vec<f32>> = (0..len).map(|i| (0..len).map(|j| if i == j { 1.0 } else { 0.0 }).collect()).collect();
        verif::set_dense(d, eye, None);
    }
    let xs: Vec<Tensor> = ds["preds"].as_array().unwrap().iter().map(|p| Tensor::single(vec1(p))).collect();
    let ys: Vec<Tensor> = ds["targets"].as_array().unwrap().iter().map(|p| Tensor::single(vec1(p))).collect();
    let (xr, yr) = (refs(&xs), refs(&ys));
    rep.nontrivial(id.clone());

    // the order in which results are collected is the input order (model: InOrder)
    if usizes(&case["order"]) != (1..=n).collect::<Vec<usize>>() {
        panic!("harness: specification emitted a non-identity collection order");
    }

    rep.checks += 3;
    let obj = objective::Function::create(nets::objective_kind(obj_name), None);
    match guarded(|| (net.validate(&xr, &yr, tol), net.predict_batch(&xr))) {
        Err(msg) => rep.mismatch("C12", "validate_or_predict_batch_panicked", &id, json!({"panic": msg}), case),
        Ok(((loss, acc), batch)) => {
            let want_acc = num(&case["acc"]);
            // (with tied predictions either single-valued tie rule is "arg-max agreement"; without ties the two coincide)
            let alt_acc = case.get("accfirst").map(num).unwrap_or(want_acc);
            if alt_acc.to_bits() != want_acc.to_bits() {
                rep.count("validate_cases_with_tied_predictions", 1);
            }
            if acc.to_bits() != want_acc.to_bits() && acc.to_bits() != alt_acc.to_bits() {
                rep.mismatch("C12", "accuracy", &id, json!({"expected": want_acc, "observed": acc, "rule": rule, "tol": tol}), case);
            }
            if !softmax {
                let want_loss = num(&case["loss"]);
                if loss.to_bits() != want_loss.to_bits() {
                    rep.mismatch("C12", "mean_loss", &id, json!({"expected": want_loss, "observed": loss}), case);
                }
            } else {
                let (cl, _) = composed_validate(&net, &obj, &xr, &yr, tol, true);
                if !close(loss, cl, 1e-6) {
                    rep.mismatch("C12", "mean_loss", &id, json!({"expected": cl, "observed": loss}), case);
                }
            }
            if batch.len() != n {
                rep.mismatch("C12", "predict_batch_length", &id, json!({"expected": n, "observed": batch.len()}), case);
            } else {
                for i in 0..n {
                    let single = net.predict(xr[i]);
                    let (_, post, _, _) = net.forward(xr[i]);
                    if nets::tensor_bits(&batch[i]) != nets::tensor_bits(&single)
                        || nets::tensor_bits(&single) != nets::tensor_bits(post.last().unwrap())
                        || (!softmax && diff_flat_exact(&flat(&batch[i]), &flat(&xs[i])).is_some())
                    {
                        rep.mismatch("C12", "predict_batch_element_or_order", &id, json!({"index": i}), case);
                        break;
                    }
                }
            }
        }
    }

    // "All tolerances": a tolerance far below any representable difference counts exact hits only, one far above any
    // difference counts everything (the products tol * tol would underflow / overflow; |t - p| < tol does not)
    if !softmax {
        for (tiny, t_ext) in [(true, 1.0e-30f32), (false, 1.0e30f32)] {
            let mut hits = 0.0f32;
            for (x, y) in xs.iter().zip(ys.iter()) {
                let (p, t) = (flat(x), flat(y));
                let within = p.iter().zip(t.iter()).filter(|(a, b)| !tiny || a == b).count();
                hits += within as f32 / len as f32;
            }
            let want = hits / n as f32;
            rep.checks += 1;
            match guarded(|| net.validate(&xr, &yr, t_ext)) {
                Err(msg) => rep.mismatch("C12", "validate_panicked_at_an_extreme_tolerance", &id, json!({"panic": msg, "tolerance": format!("{:e}", t_ext)}), case),
                Ok((_, acc)) => {
                    if acc.to_bits() != want.to_bits() {
                        rep.mismatch("C12", "accuracy_at_an_extreme_tolerance", &id, json!({"tolerance": format!("{:e}", t_ext), "expected": want, "observed": acc}), case);
                    }
                }
            }
        }
    }

    // Near misses at a tight tolerance (the 1e-6 `learn` itself passes): targets 4e-6 away from the prediction in every
    // second component are NOT within 1e-6, however equal the tensors look at 1e-5
    if !softmax {
        let ys2: Vec<Tensor> = xs.iter().map(|x| Tensor::single(flat(x).iter().enumerate().map(|(j, p)| if j % 2 == 0 { p + 4.0e-6 } else { *p }).collect())).collect();
        let yr2 = refs(&ys2);
        let per_sample = (len / 2) as f32 / len as f32;     // the odd components hit exactly
        let want = (0..n).map(|_| per_sample).sum::<f32>() / n as f32;
        rep.checks += 1;
        match guarded(|| net.validate(&xr, &yr2, 1.0e-6)) {
            Err(msg) => rep.mismatch("C12", "validate_or_predict_batch_panicked", &id, json!({"panic": msg, "targets": "near misses"}), case),
            Ok((_, acc)) => {
                if acc.to_bits() != want.to_bits() {
                    rep.mismatch("C12", "accuracy_counts_near_misses_at_a_tight_tolerance", &id, json!({"expected": want, "observed": acc, "tolerance": "1e-6", "offset": "4e-6"}), case);
                }
            }
        }
    }

    // "The arithmetic mean over the samples": a sample whose loss does not fit single precision (finite prediction, finite
    // target, squared error beyond 3.4e38) is a sample like any other -- the mean loss is then +infinity, and the sample
    // still counts (as a miss) in the accuracy.  Sample k's prediction is replaced by huge values.
    if !softmax && obj_name == "mse" && n >= 2 && case.get("accnum").is_some() {
        let k = (n * 3 + len) % n;
        let mut xs2 = xs.clone();
        xs2[k] = Tensor::single((0..len).map(|j| 1.0e20 * (j as f32 + 1.0)).collect());
        let xr2 = refs(&xs2);
        let accnum: Vec<f32> = vec1(&case["accnum"]);
        let hits: f32 = accnum.iter().enumerate().filter(|(i, _)| *i != k).map(|(_, a)| *a).sum();
        let want_acc = hits / (len * n) as f32;
        rep.checks += 1;
        rep.count("validate_overflowing_loss_cases", 1);
        match guarded(|| net.validate(&xr2, &yr, tol)) {
            Err(msg) => rep.mismatch("C12", "validate_panicked_on_overflowing_loss", &id, json!({"panic": msg}), case),
            Ok((loss, acc)) => {
                if !(loss.is_infinite() && loss > 0.0) {
                    rep.mismatch("C12", "mean_loss_drops_a_sample_whose_loss_overflows", &id, json!({"observed": loss, "sample": k}), case);
                }
                if acc.to_bits() != want_acc.to_bits() {
                    rep.mismatch("C12", "accuracy_drops_a_sample_whose_loss_overflows", &id, json!({"expected": want_acc, "observed": acc, "sample": k}), case);
                }
            }
        }
    }

    // Generic networks: validate / predict_batch against the same aggregation composed from the
    // implementation's own predict and objective (float data, every objective family).
    let mut archs = architectures();
    // networks with a skip connection only, and with a loop connection only (predict must follow forward there too)
    archs.push(json!({"name": "mlp-skip", "ints": false, "input": [4], "out": 3,
        "layers": [{"kind": "dense", "out": 4, "act": "tanh", "bias": true}, {"kind": "dense", "out": 4, "act": "tanh", "bias": false},
                   {"kind": "dense", "out": 3, "act": "linear", "bias": true}],
        "connect": [[0, 1], [1, 2]], "accumulation": {"skip": "add", "loop": "mean"}, "objective": {"kind": "mse"}}));
    // a soft-max layer in the MIDDLE of the network: the output layer decides how accuracy is scored
    archs.push(json!({"name": "mlp-hidden-softmax", "ints": false, "input": [4], "out": 3,
        "layers": [{"kind": "dense", "out": 5, "act": "softmax", "bias": true}, {"kind": "dense", "out": 3, "act": "linear", "bias": true}],
        "objective": {"kind": "mse"}}));
    // a skip connection whose source lies INSIDE a looped range and whose target comes after it
    archs.push(json!({"name": "mlp-loop-then-skip", "ints": false, "input": [4], "out": 2,
        "layers": [{"kind": "dense", "out": 4, "act": "tanh", "bias": true}, {"kind": "dense", "out": 4, "act": "tanh", "bias": true},
                   {"kind": "dense", "out": 4, "act": "sigmoid", "bias": false}, {"kind": "dense", "out": 2, "act": "linear", "bias": true}],
        "loopback": [{"outof": 2, "into": 1, "iterations": 2, "inskips": false}], "connect": [[2, 3]],
        "accumulation": {"skip": "add", "loop": "mean"}, "objective": {"kind": "mse"}}));
    archs.push(json!({"name": "cnn-loop", "ints": false, "input": [1, 4, 4], "out": 2,
        "layers": [{"kind": "conv", "filters": 1, "kernel": [3, 3], "stride": [1, 1], "padding": [1, 1], "act": "tanh"},
                   {"kind": "dense", "out": 2, "act": "linear", "bias": true}],
        "loopback": [{"outof": 0, "into": 0, "iterations": 2, "inskips": true}], "accumulation": {"skip": "add", "loop": "mean"},
        "objective": {"kind": "mae"}}));
    // the soft-max OUTPUT layer closes a loop connection: forward() stores accumulated pre-activations and accumulated
    // activations separately, and only the activations are what predict() returns
    archs.push(json!({"name": "mlp-softmax-output-loop", "ints": false, "input": [3], "out": 3, "onehot": true,
        "layers": [{"kind": "dense", "out": 3, "act": "tanh", "bias": true}, {"kind": "dense", "out": 3, "act": "softmax", "bias": true}],
        "loopback": [{"outof": 1, "into": 1, "iterations": 2, "inskips": false}], "accumulation": {"skip": "add", "loop": "mean"},
        "objective": {"kind": "ce"}}));
    archs.push(json!({"name": "softmax-only-loop-add", "ints": false, "input": [3], "out": 3, "onehot": true,
        "layers": [{"kind": "dense", "out": 3, "act": "softmax", "bias": false}],
        "loopback": [{"outof": 0, "into": 0, "iterations": 2, "inskips": false}], "accumulation": {"skip": "add", "loop": "add"},
        "objective": {"kind": "ce"}}));
    // every generic network under every objective family in turn (the network's objective decides what `validate` reports)
    const OBJECTIVES: [&str; 7] = ["ae", "mae", "mse", "rmse", "ce", "bce", "kl"];
    // three of the generic networks per case, rotating through all of them over the cases
    let pick0 = n * 7 + len * 3 + usize_of(ds, "seed") * 5 + ds["tol2"].as_u64().unwrap() as usize;
    for k in 0..3 {
    let which = (pick0 + k * 5) % archs.len();
    let mut arch = archs[which].clone();
    let last_is_softmax = arch["layers"].as_array().unwrap().last().unwrap()["act"] == "softmax";
    if !last_is_softmax {
        arch["objective"] = json!({"kind": OBJECTIVES[(pick0 + which + k) % OBJECTIVES.len()]});
    }
    let arch = &arch;
    let mut g = nets::build(arch);
    init_params(&mut g, arch, rng);
    let data = arch_dataset(arch, n, rng);
    let (gx, gy) = (refs(&data.inputs), refs(&data.targets));
    let gobj = objective::Function::create(nets::objective_kind(str_of(&arch["objective"], "kind")), None);
    let last_softmax = arch["layers"].as_array().unwrap().last().unwrap()["act"] == "softmax";
    rep.checks += 2;
    match guarded(|| (g.validate(&gx, &gy, tol), g.predict_batch(&gx))) {
        Err(msg) => rep.mismatch("C12", "validate_or_predict_batch_panicked", &id, json!({"panic": msg, "arch": arch["name"]}), case),
        Ok(((loss, acc), batch)) => {
            // evaluation leaves nothing behind: the same calls again (in the other order) give the same bits
            if let Ok((batch2, (loss2, acc2))) = guarded(|| (g.predict_batch(&gx), g.validate(&gx, &gy, tol))) {
                let same = batch2.len() == batch.len() && (0..batch.len()).all(|i| nets::tensor_bits(&batch2[i]) == nets::tensor_bits(&batch[i]));
                if !same || loss2.to_bits() != loss.to_bits() || acc2.to_bits() != acc.to_bits() {
                    rep.mismatch("C12", "evaluation_not_repeatable", &id, json!({"arch": arch["name"], "loss": [loss, loss2], "acc": [acc, acc2]}), case);
                }
            }
            let (cl, ca) = composed_validate(&g, &gobj, &gx, &gy, tol, last_softmax);
            if !close(loss, cl, 1e-6) || !close(acc, ca, 1e-6) {
                rep.mismatch("C12", "generic_network_aggregation", &id, json!({"arch": arch["name"], "loss": [loss, cl], "acc": [acc, ca]}), case);
            }
            if batch.len() != n || (0..n.min(batch.len())).any(|i| nets::tensor_bits(&batch[i]) != nets::tensor_bits(&g.predict(gx[i]))) {
                rep.mismatch("C12", "predict_batch_element_or_order", &id, json!({"arch": arch["name"]}), case);
            }
            // predict equals the final activation of forward
            if (0..n.min(8)).any(|i| nets::tensor_bits(&g.predict(gx[i])) != nets::tensor_bits(g.forward(gx[i]).1.last().unwrap())) {
                rep.mismatch("C12", "predict_is_not_last_activation_of_forward", &id, json!({"arch": arch["name"]}), case);
            }
        }
    }
    rep.count(&format!("generic_arch:{}", arch["name"].as_str().unwrap_or("?")), 1);
    }
    // validate as `learn` calls it (network in training mode, dropout configured) reports what a stand-alone validate
    // reports on the same weights: one epoch with the gradient clamped to (0, 0), so that no weight moves
    if n >= 2 && (n + len) % 3 == 0 {
        let arch = json!({"name": "mlp-dropout-frozen", "ints": false, "input": [4], "out": 3,
            "layers": [{"kind": "dense", "out": 6, "act": "tanh", "bias": true, "dropout": 0.4}, {"kind": "dense", "out": 3, "act": "linear", "bias": true, "dropout": 0.3}],
            "objective": {"kind": "mse", "clamp": [0, 0]}, "optimizer": {"kind": "sgd", "lr": 0.1}});
        let mut g = nets::build(&arch);
        init_params(&mut g, &arch, rng);
        let data = arch_dataset(&arch, n, rng);
        let (gx, gy) = (refs(&data.inputs), refs(&data.targets));
        rep.checks += 1;
        match guarded(|| {
            let (_, vl, va) = g.learn(&gx, &gy, Some((&gx, &gy, 5)), 2, 1, None);
            (vl, va, g.validate(&gx, &gy, 0.05))
        }) {
            Err(msg) => rep.mismatch("C12", "validate_inside_learn_panicked", &id, json!({"panic": msg}), case),
            Ok((vl, _va, (loss, _acc))) => {
                if vl.len() != 1 || vl[0].to_bits() != loss.to_bits() {
                    rep.mismatch("C12", "validate_called_by_learn_differs_from_stand_alone_validate", &id, json!({"inside_learn": vl, "stand_alone": loss}), case);
                }
            }
        }
    }
}

/// Architecture summary for the slot-addressing trace: [kind, filters, bias] per layer (from the description).
fn slot_arch(arch: &Value) -> Value {
    fn one(l: &Value) -> Value {
        match str_of(l, "kind") {
            "dense" => json!({"kind": "dense", "filters": 1, "bias": l.get("bias").and_then(|b| b.as_bool()).unwrap_or(false)}),
            "conv" => json!({"kind": "conv", "filters": l["filters"], "bias": false}),
            "deconv" => json!({"kind": "deconv", "filters": l["filters"], "bias": false}),
            "pool" => json!({"kind": "pool", "filters": 0, "bias": false}),
            "feedback" => {
                let loops = usize_of(l, "loops");
                let mut inner = Vec::new();
                for _ in 0..loops {
                    for i in l["layers"].as_array().unwrap() {
                        inner.push(one(i));
                    }
                }
                json!({"kind": "fb", "filters": 0, "bias": false, "inner": inner})
            }
            k => panic!("harness: kind {}", k),
        }
    }
    Value::Array(arch["layers"].as_array().unwrap().iter().map(one).collect())
}

/// C03 (implementation -> specification): the (layer, filter, bias, stepnr) slot of every Optimizer::update call
/// made by real training runs, for validation against OptSlots.tla.
pub fn record_optslots(seed: u64, tier: &str, trace: &mut Vec<Value>, rep: &mut Report) {
    let mut rng = Rng::new(seed ^ 0x0C03);
    let mut archs = architectures();
    archs.extend(thread_jobs());
    // several filters inside a feedback block (the block owns its own optimizer state, one slot per filter)
    archs.push(json!({"name": "fb-multifilter-adam", "ints": false, "input": [1, 4, 4], "out": 2,
        "layers": [{"kind": "feedback", "loops": 2, "acc": "mean",
                    "layers": [{"kind": "conv", "filters": 3, "kernel": [3, 3], "stride": [1, 1], "padding": [1, 1], "act": "tanh"},
                               {"kind": "deconv", "filters": 2, "kernel": [3, 3], "stride": [1, 1], "padding": [1, 1], "act": "tanh"},
                               {"kind": "conv", "filters": 1, "kernel": [3, 3], "stride": [1, 1], "padding": [1, 1], "act": "tanh"}]},
                   {"kind": "dense", "out": 2, "act": "linear", "bias": true}],
        "objective": {"kind": "mse"}, "optimizer": {"kind": "adam", "lr": 0.01}}));
    let kinds_menu = ["dense", "softmax", "conv", "conv1", "deconv", "pool", "fb", "fbd", "fbs"];
    for _ in 0..(if tier == "thorough" { 30 } else { 6 }) {
        let k = rng.range(1, 4) as usize;
        let kinds: Vec<String> = (0..k).map(|_| rng.pick(&kinds_menu).to_string()).collect();
        let drop: Vec<bool> = kinds.iter().map(|_| false).collect();
        archs.push(flags_arch(&kinds, &drop));
    }
    let mut runs = 0u64;
    for arch in archs {
        let n = rng.range(2, 5) as usize;
        let spec = RunSpec { arch: arch.clone(), n, batch: rng.range(1, 3) as usize, epochs: rng.range(1, 3) as usize, nval: 0, tol: 1,
                             threads: 2, jitter: 0, data_seed: rng.next() };
        rep.checks += 1;
        match run_job(&spec, false) {
            Err(msg) => rep.mismatch("C03", "training_panicked_in_slot_driver", "optslots", json!({"panic": msg, "arch": arch}), &json!({})),
            Ok(res) => {
                let lr = arch["optimizer"].get("lr").and_then(|v| v.as_f64()).unwrap_or(0.1) as f32;
                trace.push(json!({"event": "Net", "run": runs, "layers": slot_arch(&arch),
                                  "optimizer": {"kind": arch["optimizer"]["kind"], "lr_bits": lr.to_bits()}}));
                for line in res.events {
                    let v: Value = serde_json::from_str(&line).unwrap();
                    if v["event"] == "Update" || v["event"] == "OptUpdate" {
                        trace.push(v);
                    }
                }
                trace.push(json!({"event": "End"}));
                rep.nontrivial(format!("optslots:{}", runs));
                runs += 1;
            }
        }
        rep.cases += 1;
    }
    rep.count("trace_runs", runs);
}
