//! Conformance harness binding the TLA+ specification in /verif/spec to the code in /repo.
//!
//!   vharness replay <cases.ndjson> <out.json>
//!       drive the real API with every case (one JSON object per line) printed by TLC and compare
//!   vharness record <group> <seed> <tier> <trace.ndjson> <out.json>
//!       run a randomized driver against the real API and write an ndjson trace for TLC

#![allow(dead_code)]
mod disturb;
mod extras;
mod layers;
mod netcase;
mod netterm;
mod nets;
mod random;
mod tensors;
mod terms;
mod training;
mod util;

use serde_json::Value;
use std::io::{BufRead, Write};

fn main() {
    let args: Vec<String> = std::env::args().collect();
    util::silence_panics();
    let mut rep = util::Report::default();
    let seed_env: u64 = std::env::var("VERIF_SEED").ok().and_then(|s| s.parse().ok()).unwrap_or(1);
    match args.get(1).map(|s| s.as_str()) {
        Some("replay") => {
            let file = std::fs::File::open(&args[2]).expect("cases file");
            for line in std::io::BufReader::new(file).lines() {
                let line = line.unwrap();
                if line.trim().is_empty() {
                    continue;
                }
                let case: Value = serde_json::from_str(&line).expect("case json");
                rep.cases += 1;
                if rep.cases == 2 || rep.cases == 400 || rep.cases == 4000 {
                    rep.sample(case.clone());
                }
                let group = case["group"].as_str().unwrap_or("").to_string();
                // the harness-chosen data of a case are a function of the case (and VERIF_SEED) alone: TLC's workers print
                // the cases in a different order on every run, and a verdict must not depend on that order
                let mut h: u64 = 0xcbf2_9ce4_8422_2325;
                for b in line.as_bytes() {
                    h = (h ^ *b as u64).wrapping_mul(0x0000_0100_0000_01B3);
                }
                let mut rng = util::Rng::new(seed_env ^ h);
                let outcome = util::guarded(|| dispatch(&group, &case, &mut rep, &mut rng));
                if let Err(e) = outcome {
                    // A panic that escaped a handler is a harness defect, not a verdict.
                    rep.notes.push(format!("harness error in group {}: {}", group, e));
                    rep.count("harness_errors", 1);
                }
            }
            std::fs::write(&args[3], serde_json::to_string(&rep.to_json()).unwrap()).unwrap();
        }
        Some("sweep-activations") => {
            // vharness sweep-activations <cases.ndjson> <stride> <out.json>
            let cases: Vec<Value> = std::io::BufReader::new(std::fs::File::open(&args[2]).expect("cases file"))
                .lines()
                .map(|l| serde_json::from_str(&l.unwrap()).expect("case json"))
                .collect();
            let stride: u64 = args[3].parse().expect("stride");
            terms::sweep_activations(&mut rep, stride, &cases);
            std::fs::write(&args[4], serde_json::to_string(&rep.to_json()).unwrap()).unwrap();
        }
        Some("record") => {
            let group = args[2].as_str();
            let seed: u64 = args[3].parse().expect("seed");
            let tier = args[4].as_str();
            let mut trace: Vec<Value> = Vec::new();
            match group {
                "reshape" => tensors::record_reshape(seed, tier, &mut trace, &mut rep),
                "arith" => tensors::record_arith(seed, tier, &mut trace, &mut rep),
                "training" => training::record_training(seed, tier, &mut trace, &mut rep),
                "threads" => training::record_threads(seed, tier, &mut trace, &mut rep),
                "optslots" => training::record_optslots(seed, tier, &mut trace, &mut rep),
                "net" => netcase::record_net(seed, tier, &mut trace, &mut rep),
                "randomsweep" => random::sweep(&mut rep, if tier == "thorough" { 1 } else { 4099 }),
                _ => panic!("unknown record group {}", group),
            }
            let mut out = std::io::BufWriter::new(std::fs::File::create(&args[5]).unwrap());
            for ev in trace.iter() {
                writeln!(out, "{}", serde_json::to_string(ev).unwrap()).unwrap();
            }
            rep.count("trace_events", trace.len() as u64);
            std::fs::write(&args[6], serde_json::to_string(&rep.to_json()).unwrap()).unwrap();
        }
        _ => {
            eprintln!("usage: vharness replay <cases> <out> | record <group> <seed> <tier> <trace> <out>");
            std::process::exit(2);
        }
    }
}

fn dispatch(group: &str, case: &Value, rep: &mut util::Report, rng: &mut util::Rng) {
    match group {
        "reshape" => tensors::replay_reshape(case, rep),
        "arith" => tensors::replay_arith(case, rep, rng),
        "layer" => layers::replay_layer(case, rep),
        "training" => training::replay_training(case, rep, rng),
        "validate" => training::replay_validate(case, rep, rng),
        "net" => netcase::replay_net(case, rep),
        "flow" => netcase::replay_flow(case, rep),
        "tying" => netcase::replay_tying(case, rep, rng),
        "tutil" => extras::replay_tutil(case, rep),
        "random" => random::replay_random(case, rep),
        "optimizer" => terms::replay_optimizer(case, rep, rng),
        "objective" => terms::replay_objective(case, rep, rng),
        "activation" => terms::replay_activation(case, rep),
        "softmaxce" => terms::replay_softmaxce(case, rep),
        "layerterm" => terms::replay_layerterm(case, rep, rng),
        "netterm" => netterm::replay_netterm(case, rep, rng),
        _ => panic!("unknown group {}", group),
    }
}
