//! Building real networks from JSON descriptions; parameter installation and extraction.

use crate::layers::activation;
use crate::util::*;
use neurons::feedback;
use neurons::network::{Layer, Network};
use neurons::tensor::{Scale, Tensor};
use neurons::{objective, optimizer, verif};
use serde_json::{json, Value};
use std::sync::Arc;

pub fn accumulation(name: &str) -> feedback::Accumulation {
    match name {
        "add" => feedback::Accumulation::Add,
        "subtract" | "sub" => feedback::Accumulation::Subtract,
        "multiply" | "mul" => feedback::Accumulation::Multiply,
        "overwrite" => feedback::Accumulation::Overwrite,
        "mean" => feedback::Accumulation::Mean,
        _ => panic!("harness: unknown accumulation {}", name),
    }
}

fn dropout_of(l: &Value) -> Option<f32> {
    l.get("dropout").and_then(|d| d.as_f64()).map(|d| d as f32)
}

fn pair_or(l: &Value, key: &str, default: (usize, usize)) -> (usize, usize) {
    match l.get(key) {
        Some(v) if v.is_array() => pair(v),
        _ => default,
    }
}

pub fn feedback_layer(l: &Value) -> feedback::Layer {
    let act = || activation(l.get("act").and_then(|a| a.as_str()).unwrap_or("linear"));
    match str_of(l, "kind") {
        "dense" => feedback::Layer::Dense(
            usize_of(l, "out"),
            act(),
            l.get("bias").and_then(|b| b.as_bool()).unwrap_or(false),
            dropout_of(l),
        ),
        "conv" => feedback::Layer::Convolution(
            usize_of(l, "filters"),
            act(),
            pair(&l["kernel"]),
            pair_or(l, "stride", (1, 1)),
            pair_or(l, "padding", (0, 0)),
            pair_or(l, "dilation", (1, 1)),
            dropout_of(l),
        ),
        "deconv" => feedback::Layer::Deconvolution(
            usize_of(l, "filters"),
            act(),
            pair(&l["kernel"]),
            pair_or(l, "stride", (1, 1)),
            pair_or(l, "padding", (0, 0)),
            dropout_of(l),
        ),
        "pool" => feedback::Layer::Maxpool(pair(&l["kernel"]), pair_or(l, "stride", (1, 1))),
        k => panic!("harness: unknown feedback layer kind {}", k),
    }
}

/// Add one layer through the public builder API.
pub fn add_layer(net: &mut Network, l: &Value) {
    let act = || activation(l.get("act").and_then(|a| a.as_str()).unwrap_or("linear"));
    match str_of(l, "kind") {
        "dense" => net.dense(
            usize_of(l, "out"),
            act(),
            l.get("bias").and_then(|b| b.as_bool()).unwrap_or(false),
            dropout_of(l),
        ),
        "conv" => net.convolution(
            usize_of(l, "filters"),
            pair(&l["kernel"]),
            pair_or(l, "stride", (1, 1)),
            pair_or(l, "padding", (0, 0)),
            pair_or(l, "dilation", (1, 1)),
            act(),
            dropout_of(l),
        ),
        "deconv" => net.deconvolution(
            usize_of(l, "filters"),
            pair(&l["kernel"]),
            pair_or(l, "stride", (1, 1)),
            pair_or(l, "padding", (0, 0)),
            act(),
            dropout_of(l),
        ),
        "pool" => net.maxpool(pair(&l["kernel"]), pair_or(l, "stride", (1, 1))),
        "feedback" => net.feedback(
            l["layers"].as_array().unwrap().iter().map(feedback_layer).collect(),
            usize_of(l, "loops"),
            l.get("inskips").and_then(|b| b.as_bool()).unwrap_or(false),
            l.get("outskips").and_then(|b| b.as_bool()).unwrap_or(false),
            accumulation(l.get("acc").and_then(|a| a.as_str()).unwrap_or("mean")),
        ),
        k => panic!("harness: unknown layer kind {}", k),
    }
}

pub fn optimizer_from(o: &Value) -> optimizer::Optimizer {
    let f = |k: &str, d: f32| o.get(k).and_then(|v| v.as_f64()).map(|v| v as f32).unwrap_or(d);
    let opt = |k: &str| o.get(k).and_then(|v| v.as_f64()).map(|v| v as f32);
    match str_of(o, "kind") {
        "sgd" => optimizer::SGD::create(f("lr", 0.1), opt("decay")),
        "sgdm" => optimizer::SGDM::create(f("lr", 0.1), f("momentum", 0.9), f("dampening", 0.0), opt("decay")),
        "adam" => optimizer::Adam::create(f("lr", 0.001), f("beta1", 0.9), f("beta2", 0.999), f("epsilon", 1e-8), opt("decay")),
        "adamw" => optimizer::AdamW::create(f("lr", 0.001), f("beta1", 0.9), f("beta2", 0.999), f("epsilon", 1e-8), f("decay", 0.01)),
        "rmsprop" => optimizer::RMSprop::create(
            f("lr", 0.01),
            f("alpha", 0.99),
            f("epsilon", 1e-8),
            opt("decay"),
            opt("momentum"),
            o.get("centered").and_then(|v| v.as_bool()).unwrap_or(false),
        ),
        k => panic!("harness: unknown optimizer {}", k),
    }
}

pub fn objective_kind(name: &str) -> objective::Objective {
    match name {
        "ae" => objective::Objective::AE,
        "mae" => objective::Objective::MAE,
        "mse" => objective::Objective::MSE,
        "rmse" => objective::Objective::RMSE,
        "ce" | "crossentropy" => objective::Objective::CrossEntropy,
        "bce" => objective::Objective::BinaryCrossEntropy,
        "kl" => objective::Objective::KLDivergence,
        _ => panic!("harness: unknown objective {}", name),
    }
}

pub fn clamp_of(o: &Value) -> Option<(f32, f32)> {
    match o.get("clamp") {
        Some(v) if v.is_array() => Some((num(&v[0]), num(&v[1]))),
        _ => None,
    }
}

/// Build a whole network (layers, connections, accumulation, optimizer, objective).
pub fn build(desc: &Value) -> Network {
    let mut net = Network::new(shape_from(&desc["input"]));
    for l in desc["layers"].as_array().unwrap() {
        add_layer(&mut net, l);
    }
    if let Some(acc) = desc.get("accumulation") {
        if acc.is_object() {
            net.set_accumulation(
                accumulation(acc.get("skip").and_then(|a| a.as_str()).unwrap_or("add")),
                accumulation(acc.get("loop").and_then(|a| a.as_str()).unwrap_or("mean")),
            );
        }
    }
    if let Some(cs) = desc.get("connect").and_then(|c| c.as_array()) {
        for c in cs {
            let (a, b) = pair(c);
            net.connect(a, b);
        }
    }
    if let Some(ls) = desc.get("loopback").and_then(|c| c.as_array()) {
        for l in ls {
            let scale: Scale = Arc::new(|_x| 1.0);
            net.loopback(
                usize_of(l, "outof"),
                usize_of(l, "into"),
                usize_of(l, "iterations"),
                scale,
                l.get("inskips").and_then(|b| b.as_bool()).unwrap_or(false),
            );
        }
    }
    if let Some(o) = desc.get("objective") {
        if o.is_object() {
            net.set_objective(objective_kind(str_of(o, "kind")), clamp_of(o));
        }
    }
    if let Some(o) = desc.get("optimizer") {
        if o.is_object() {
            net.set_optimizer(optimizer_from(o));
        }
    }
    net
}

// ---------- parameters ----------------------------------------------------------------

fn fill_params(p: &verif::Params, f: &mut dyn FnMut() -> f32) -> verif::Params {
    verif::Params {
        kind: p.kind,
        weights: p.weights.as_ref().map(|w| w.iter().map(|r| r.iter().map(|_| f()).collect()).collect()),
        bias: p.bias.as_ref().map(|b| b.iter().map(|_| f()).collect()),
        kernels: p.kernels.as_ref().map(|k| {
            k.iter()
                .map(|a| a.iter().map(|b| b.iter().map(|c| c.iter().map(|_| f()).collect()).collect()).collect())
                .collect()
        }),
    }
}

/// Replace every parameter by a value drawn from `f`.  Inside a feedback block all unrolled copies of a
/// layer receive the same values (the block's weights are tied).
pub fn randomize(net: &mut Network, desc: &Value, f: &mut dyn FnMut() -> f32) {
    for (li, layer) in net.layers.iter_mut().enumerate() {
        match layer {
            Layer::Feedback(_) => {
                let inner = verif::inner_layers_mut(layer);
                let total = inner.len();
                // the block repeats its layer list `loops` times
                let period = desc["layers"][li]["layers"].as_array().map(|a| a.len()).unwrap_or(total);
                for j in 0..period {
                    let p = verif::layer_params(&inner[j]);
                    if p.kind == "maxpool" {
                        continue;
                    }
                    let newp = fill_params(&p, f);
                    let mut c = j;
                    while c < total {
                        verif::set_layer(&mut inner[c], newp.clone());
                        c += period;
                    }
                }
            }
            Layer::Maxpool(_) => (),
            _ => {
                let p = verif::layer_params(layer);
                verif::set_layer(layer, fill_params(&p, f));
            }
        }
    }
}

pub fn randomize_ints(net: &mut Network, desc: &Value, rng: &mut Rng, lo: i64, hi: i64) {
    let mut f = || rng.range(lo, hi) as f32;
    randomize(net, desc, &mut f);
}

pub fn randomize_floats(net: &mut Network, desc: &Value, rng: &mut Rng, scale: f32) {
    let mut f = || (rng.unit() * 2.0 - 1.0) * scale;
    randomize(net, desc, &mut f);
}

fn params_flat(p: &verif::Params, out: &mut Vec<f32>) {
    if let Some(w) = &p.weights {
        out.extend(w.iter().flatten());
    }
    if let Some(b) = &p.bias {
        out.extend(b.iter());
    }
    if let Some(k) = &p.kernels {
        out.extend(k.iter().flatten().flatten().flatten());
    }
}

/// One plain SGD step written out by hand (documented rule: `g += decay * w; w -= lr * g`, element-wise), for networks
/// of dense / convolution / deconvolution / max-pool layers without feedback blocks.  `wg` / `bg` are in the order
/// `verif_backward` returns them (last layer first).  Used where the reference descent must not go through
/// `Optimizer::update`.
pub fn manual_sgd_step(net: &mut Network, wg: &[Tensor], bg: &[Option<Tensor>], lr: f32, decay: Option<f32>) {
    let n = net.layers.len();
    let step = |w: &mut f32, g: f32| {
        let mut g = g;
        if let Some(d) = decay {
            g += d * *w;
        }
        *w -= lr * g;
    };
    for (i, layer) in net.layers.iter_mut().enumerate() {
        if matches!(layer, Layer::Maxpool(_)) {
            continue;
        }
        assert!(!matches!(layer, Layer::Feedback(_)), "harness: manual SGD does not handle feedback blocks");
        let mut p = verif::layer_params(layer);
        let g = crate::util::flat(&wg[n - 1 - i]);
        let mut it = g.iter();
        if let Some(w) = p.weights.as_mut() {
            for x in w.iter_mut().flatten() {
                step(x, *it.next().expect("weight gradient too short"));
            }
        }
        if let Some(k) = p.kernels.as_mut() {
            for x in k.iter_mut().flatten().flatten().flatten() {
                step(x, *it.next().expect("kernel gradient too short"));
            }
        }
        assert!(it.next().is_none(), "harness: weight gradient longer than the parameters");
        if let Some(b) = p.bias.as_mut() {
            let gb = crate::util::flat(bg[n - 1 - i].as_ref().expect("bias gradient missing"));
            assert_eq!(gb.len(), b.len());
            for (x, g) in b.iter_mut().zip(gb.iter()) {
                step(x, *g);
            }
        }
        verif::set_layer(layer, p);
    }
}

/// All parameters, one flat vector per (unrolled) layer, in order.
pub fn all_params(net: &Network) -> Vec<Vec<f32>> {
    let mut out = Vec::new();
    for layer in net.layers.iter() {
        match layer {
            Layer::Feedback(_) => {
                for inner in verif::inner_layers(layer) {
                    let mut v = Vec::new();
                    params_flat(&verif::layer_params(inner), &mut v);
                    out.push(v);
                }
            }
            _ => {
                let mut v = Vec::new();
                params_flat(&verif::layer_params(layer), &mut v);
                out.push(v);
            }
        }
    }
    out
}

/// Copy every parameter of `from` into `to` (same architecture).
pub fn copy_params(from: &Network, to: &mut Network) {
    for (a, b) in from.layers.iter().zip(to.layers.iter_mut()) {
        match a {
            Layer::Feedback(_) => {
                let src = verif::inner_layers(a);
                let dst = verif::inner_layers_mut(b);
                for (x, y) in src.iter().zip(dst.iter_mut()) {
                    let p = verif::layer_params(x);
                    if p.kind != "maxpool" {
                        verif::set_layer(y, p);
                    }
                }
            }
            Layer::Maxpool(_) => (),
            _ => verif::set_layer(b, verif::layer_params(a)),
        }
    }
}

pub fn params_json(net: &Network) -> Value {
    json!(all_params(net))
}

/// Bit patterns of all parameters (for bitwise comparisons).
pub fn param_bits(net: &Network) -> Vec<u32> {
    all_params(net).iter().flatten().map(|x| x.to_bits()).collect()
}

pub fn tensor_bits(t: &Tensor) -> Vec<u32> {
    flat(t).iter().map(|x| x.to_bits()).collect()
}
