//! Term mode: the evaluator for formulas the specification emits as data (Num.tla), and the replay of
//! optimizer histories (C03), objective cases (C06) and activation cases (C07).
//!
//! The evaluator is the trusted base of term mode: every operation is one IEEE single-precision operation
//! (or the platform's f32 libm function), applied in the order the term prescribes.

use crate::util::*;
use neurons::optimizer;
use neurons::tensor::Tensor;
use serde_json::{json, Value};
use std::collections::HashMap;

pub type Env = HashMap<String, f32>;

pub fn eval(t: &Value, env: &Env) -> f32 {
    let op = t["op"].as_str().expect("term op");
    let a = || eval(&t["a"], env);
    let b = || eval(&t["b"], env);
    match op {
        "leaf" => *env
            .get(t["name"].as_str().unwrap())
            .unwrap_or_else(|| panic!("harness: unbound leaf {}", t["name"])),
        "const" => t["n"].as_i64().unwrap() as f32 / t["d"].as_i64().unwrap() as f32,
        "add" => a() + b(),
        "sub" => a() - b(),
        "mul" => a() * b(),
        "div" => a() / b(),
        "neg" => -a(),
        "sq" => {
            let x = a();
            x * x
        }
        "sqrt" => a().sqrt(),
        "exp" => a().exp(),
        "ln" => a().ln(),
        "abs" => a().abs(),
        "sign" => {
            let x = a();
            if x > 0.0 { 1.0 } else if x < 0.0 { -1.0 } else { 0.0 }
        }
        "tanh" => a().tanh(),
        "cosh" => a().cosh(),
        "max" => a().max(b()),
        "min" => a().min(b()),
        "powi" => a().powi(b() as i32),
        "ifpos" => {
            if eval(&t["c"], env) > 0.0 { a() } else { b() }
        }
        _ => panic!("harness: unknown term op {}", op),
    }
}

/// Run a straight-line program (sequence of guarded assignments) on an environment.
pub fn run_program(program: &Value, env: &mut Env, first: bool) {
    for ins in program.as_array().unwrap() {
        let active = match ins["guard"].as_str().unwrap() {
            "always" => true,
            "first" => first,
            "later" => !first,
            g => panic!("harness: unknown guard {}", g),
        };
        if active {
            let v = eval(&ins["term"], env);
            env.insert(ins["target"].as_str().unwrap().to_string(), v);
        }
    }
}

/// <<n, d>> = n/d, or <<n, d, e>> = n/d * 2^e (exact for the subnormal grid point 2^-140)
fn rat(v: &Value) -> f32 {
    let q = v[0].as_i64().unwrap() as f32 / v[1].as_i64().unwrap() as f32;
    match v.get(2).and_then(|e| e.as_i64()) {
        Some(e) => (q as f64 * 2.0f64.powi(e as i32)) as f32,
        None => q,
    }
}

fn make_optimizer(kind: &str, o: &Value, hp: &Value) -> optimizer::Optimizer {
    let h = |k: &str| rat(&hp[k]);
    let decay = if bool_of(o, "decay") { Some(h("decay")) } else { None };
    match kind {
        "sgd" => optimizer::SGD::create(h("lr"), decay),
        "sgdm" => optimizer::SGDM::create(h("lr"), h("momentum"), h("dampening"), decay),
        "adam" => optimizer::Adam::create(h("lr"), h("beta1"), h("beta2"), h("eps"), decay),
        "adamw" => optimizer::AdamW::create(h("lr"), h("beta1"), h("beta2"), h("eps"), h("decay")),
        "rmsprop" => optimizer::RMSprop::create(
            h("lr"),
            h("alpha"),
            h("eps"),
            decay,
            if bool_of(o, "momentum") { Some(h("momentum")) } else { None },
            bool_of(o, "centered"),
        ),
        _ => panic!("harness: unknown optimizer kind {}", kind),
    }
}

const N: usize = 6;

/// The three slots: (layer, filter, bias) and how six scalars are laid out.
fn slot_address(slot: usize) -> (usize, usize, bool) {
    match slot {
        1 => (0, 0, false), // dense weights, 2x3 matrix
        2 => (0, 0, true),  // dense bias, vector of 6
        4 => (1, 0, false), // FIRST filter of the same convolution (its state lives next to slot 3's)
        _ => (1, 1, false), // second filter of a convolution, 1x2x3 kernel
    }
}
fn layout(slot: usize, v: &[f32]) -> Tensor {
    match slot {
        1 => Tensor::double(vec![v[0..3].to_vec(), v[3..6].to_vec()]),
        2 => Tensor::single(v.to_vec()),
        _ => Tensor::triple(vec![vec![v[0..3].to_vec(), v[3..6].to_vec()]]),
    }
}
fn state_vectors() -> Vec<Vec<Vec<Tensor>>> {
    let z = [0.0f32; N];
    vec![
        vec![vec![layout(1, &z), layout(2, &z)]],
        vec![vec![layout(3, &z)], vec![layout(3, &z)]],
    ]
}

/// Gradient of element i at the slot's k-th own update (k from 0), per gradient class.
fn gradient(class: &str, k: usize, i: usize, rng_base: u64) -> f32 {
    let mut r = Rng::new(rng_base ^ ((k as u64) << 8) ^ i as u64);
    match class {
        "random" => r.unit() * 2.0 - 1.0,
        "constant" => 0.37 + i as f32 * 0.11,
        "sparse" => if (k + i) % 3 == 0 { r.unit() - 0.5 } else { 0.0 },
        "flipping" => (if k % 2 == 0 { 1.0 } else { -1.0 }) * (0.2 + 0.1 * i as f32),
        // every second step of a slot has an exactly zero gradient in every element: the step is then pure weight
        // decay / coasting on the moment state, never "nothing"
        "vanishing" => if k % 2 == 1 { 0.0 } else { 0.3 - 0.15 * i as f32 },
        "tiny" => 1.0e-20 * (1.0 + i as f32),
        // comparable with an epsilon of 1e-9 .. 1e-8: the value of epsilon decides the step
        "small" => 1.0e-9 * (1.0 + i as f32) * if (i + k) % 3 == 0 { -1.0 } else { 1.0 },
        "large" => 1.0e10 * (1.0 + i as f32) * if i % 2 == 0 { 1.0 } else { -1.0 },
        _ => panic!("harness: gradient class"),
    }
}

const CLASSES: [&str; 8] = ["random", "constant", "sparse", "flipping", "vanishing", "tiny", "small", "large"];

fn run_history(case: &Value, class: &str, steps: &[(usize, i32)], seed: u64, rep: &mut Report, id: &str) {
    let kind = str_of(case, "kind");
    let mut opt = make_optimizer(kind, &case["o"], &case["hp"]);
    opt.validate(state_vectors());
    let state_vars: Vec<String> = case["state"].as_array().unwrap().iter().map(|s| s.as_str().unwrap().to_string()).collect();
    let start: Vec<f32> = (0..N).map(|i| 0.5 - 0.2 * i as f32).collect();
    // expected: one environment per (slot, element)
    let mut envs: Vec<Vec<Env>> = (0..5)
        .map(|_| {
            (0..N)
                .map(|i| {
                    let mut e = Env::new();
                    for (name, v) in case["eff"].as_object().unwrap() {
                        e.insert(name.clone(), rat(v));
                    }
                    for s in state_vars.iter() {
                        e.insert(s.clone(), 0.0);
                    }
                    e.insert("w".to_string(), start[i]);
                    e
                })
                .collect()
        })
        .collect();
    let mut values: Vec<Tensor> = (0..5).map(|s| layout(s.max(1), &start)).collect();
    let mut own: Vec<usize> = vec![0; 5];
    let mut own_hist: Vec<Vec<i32>> = vec![Vec::new(); 5];
    let model_has_slot4 = steps.iter().any(|(s, _)| *s == 4);
    let mut shadow = layout(4, &start);
    let mut shadow_k = 0usize;
    for (slot, stepnr) in steps.iter() {
        // (slot 4 -- the first filter of the layer whose second filter is slot 3 -- receives a gradient stream of its own:
        // slots 1..3 share theirs so that equal histories can be compared across ranks)
        let salt = if *slot == 4 { 0x5107_u64 } else { 0 };
        let g: Vec<f32> = (0..N).map(|i| gradient(class, own[*slot], i, seed ^ salt)).collect();
        let mut gt = layout(*slot, &g);
        // where the model's history has no slot 4, the neighbouring filter is stepped in the shadow of slot 3 (with its own
        // gradients, on its own tensor): state kept for one slot never influences another, so nothing may change
        if *slot == 3 && !model_has_slot4 {
            let gs: Vec<f32> = (0..N).map(|i| -1.7 * gradient(if class == "vanishing" { "constant" } else { class }, shadow_k, i, seed ^ 0x5107)).collect();
            let mut gst = layout(4, &gs);
            let _ = guarded(|| opt.update(1, 0, false, *stepnr, &mut shadow, &mut gst));
            shadow_k += 1;
        }
        let (layer, filter, bias) = slot_address(*slot);
        let res = guarded(|| {
            let mut v = values[*slot].clone();
            opt.update(layer, filter, bias, *stepnr, &mut v, &mut gt);
            v
        });
        match res {
            Ok(v) => values[*slot] = v,
            Err(e) => {
                rep.mismatch("C03", "update_panicked", id, json!({"panic": e, "class": class, "slot": slot}), case);
                return;
            }
        }
        for i in 0..N {
            let env = &mut envs[*slot][i];
            env.insert("g".to_string(), g[i]);
            env.insert("stepnr".to_string(), *stepnr as f32);
            run_program(&case["program"], env, *stepnr <= 1);
        }
        own[*slot] += 1;
        own_hist[*slot].push(*stepnr);
    }
    rep.checks += 1;
    for slot in 1..=4 {
        if own[slot] == 0 {
            continue;
        }
        let got = flat(&values[slot]);
        for i in 0..N {
            let want = envs[slot][i]["w"];
            let finite_expected = want.is_finite() && want.abs() < 1.0e30;
            if finite_expected && !got[i].is_finite() {
                rep.mismatch(
                    "C03",
                    "parameter_not_finite",
                    id,
                    json!({"class": class, "slot": slot, "element": i, "expected": want, "observed": format!("{}", got[i]), "steps": own[slot]}),
                    case,
                );
                return;
            }
            if finite_expected && !close(got[i], want, 1e-5) {
                // C04: "apply exactly one optimizer step" -- the step IS this documented update; training with another one
                // is not the descent the statement describes
                rep.mismatch("C04", "optimizer_step_is_not_the_documented_update", id, json!({"class": class, "slot": slot, "element": i, "expected": want, "observed": got[i]}), case);
                rep.mismatch(
                    "C03",
                    "update_rule",
                    id,
                    json!({"class": class, "slot": slot, "element": i, "expected": want, "observed": got[i], "steps": own[slot]}),
                    case,
                );
                return;
            }
        }
    }
    // rank independence: slots with the same own history hold bit-identical values
    for a in 1..=3 {
        for b in (a + 1)..=3 {
            if own[a] > 0 && own_hist[a] == own_hist[b] {
                let (fa, fb) = (flat(&values[a]), flat(&values[b]));
                if fa.iter().zip(fb.iter()).any(|(x, y)| x.to_bits() != y.to_bits() && !(x.is_nan() && y.is_nan())) {
                    rep.mismatch(
                        "C03",
                        "result_depends_on_tensor_rank",
                        id,
                        json!({"class": class, "slots": [a, b], "a": fa, "b": fb}),
                        case,
                    );
                    return;
                }
            }
        }
    }
}

pub fn replay_optimizer(case: &Value, rep: &mut Report, rng: &mut Rng) {
    let hist: Vec<(usize, i32)> = case["hist"]
        .as_array()
        .unwrap()
        .iter()
        .map(|h| (usize_of(h, "slot"), h["stepnr"].as_i64().unwrap() as i32))
        .collect();
    let id = format!("optimizer:{}:{}:zeros{}:{:?}", str_of(case, "kind"), case["o"], case["zeros"], hist);
    rep.nontrivial(id.clone());
    let seed = rng.next();
    for class in CLASSES.iter() {
        run_history(case, class, &hist, seed, rep, &id);
    }
    // long single-slot runs for the robustness clause (constant and flipping gradients)
    for n in case["long"].as_array().unwrap() {
        let n = n.as_u64().unwrap() as usize;
        let steps: Vec<(usize, i32)> = (0..n).map(|k| (1 + (k % 2) * 2, 1 + (k / 4) as i32)).collect();
        for class in ["constant", "flipping", "sparse", "vanishing"] {
            run_history(case, class, &steps, seed, rep, &format!("{}:long{}", id, n));
        }
    }
}

// ------------------------------------------------------------------------------------------------
// Group "objective" (C06)
// ------------------------------------------------------------------------------------------------

fn shaped(shape: &[usize], v: &[f32]) -> Tensor {
    if shape.len() == 1 {
        Tensor::single(v.to_vec())
    } else {
        crate::tensors::triple_rowmajor(shape, v)
    }
}

fn check_objective(case: &Value, t: &[f32], p: &[f32], mode: &str, rep: &mut Report, id: &str) {
    let obj = str_of(case, "obj");
    let shape = usizes(&case["shape"]);
    let n = t.len();
    let empty = Env::new();
    let clamp = match case["clamp"].as_array() {
        Some(c) if c.len() == 2 => Some((eval(&c[0], &empty), eval(&c[1], &empty))),
        _ => None,
    };
    let f = neurons::objective::Function::create(crate::nets::objective_kind(obj), clamp);
    let (pt, tt) = (shaped(&shape, p), shaped(&shape, t));
    rep.checks += 1;
    let (loss, grad) = match guarded(|| f.loss(&pt, &tt)) {
        Ok(r) => r,
        Err(e) => {
            rep.mismatch("C06", "loss_panicked", id, json!({"panic": e, "mode": mode}), case);
            return;
        }
    };
    let mut env = Env::new();
    for i in 0..n {
        env.insert(format!("p{}", i + 1), p[i]);
        env.insert(format!("t{}", i + 1), t[i]);
    }
    let want_loss = eval(&case["loss"], &env);
    if !loss.is_finite() {
        rep.mismatch("C06", "loss_not_finite", id, json!({"mode": mode, "loss": format!("{}", loss), "expected": want_loss, "t": t, "p": p}), case);
        return;
    }
    if !close(loss, want_loss, 1e-5) {
        rep.mismatch("C06", "loss_value", id, json!({"mode": mode, "observed": loss, "expected": want_loss, "t": t, "p": p}), case);
        return;
    }
    // shape of the gradient = shape of the prediction
    if data_dims(&grad.data) != shape || shape_dims(&grad.shape) != shape {
        rep.mismatch("C06", "gradient_shape", id, json!({"mode": mode, "expected": shape, "observed": data_dims(&grad.data)}), case);
        return;
    }
    let g = flat(&grad);
    for i in 0..n {
        let want = eval(&case["grad"][i], &env);
        if !close(g[i], want, 1e-5) {
            rep.mismatch(
                "C06",
                if clamp.is_some() { "clamped_gradient_value" } else { "gradient_value" },
                id,
                json!({"mode": mode, "element": i, "observed": g[i], "expected": want, "t": t, "p": p, "clamp": clamp.map(|c| vec![c.0, c.1])}),
                case,
            );
            return;
        }
        if let Some((lo, hi)) = clamp {
            if !(g[i] >= lo && g[i] <= hi) {
                rep.mismatch("C06", "gradient_outside_clamp", id, json!({"element": i, "observed": g[i]}), case);
                return;
            }
        }
    }
    // the gradient is the derivative of the reported loss (specification's symbolic derivative)
    if let Some(d) = case["dloss"].as_array() {
        if mode == "grid" || mode == "random-smooth" {
            for i in 0..d.len() {
                let want = eval(&d[i], &env);
                if want.is_finite() && !close(g[i], want, 2e-4) {
                    rep.mismatch("C06", "gradient_is_not_derivative_of_loss", id, json!({"mode": mode, "element": i, "observed": g[i], "derivative": want, "t": t, "p": p}), case);
                    return;
                }
            }
        }
    }
}

pub fn replay_objective(case: &Value, rep: &mut Report, rng: &mut Rng) {
    let obj = str_of(case, "obj");
    let t: Vec<f32> = case["t"].as_array().unwrap().iter().map(rat).collect();
    let p: Vec<f32> = case["p"].as_array().unwrap().iter().map(rat).collect();
    let id = format!("objective:{}:{}:clamp{}:t{}:p{}", obj, case["shape"], case["clamp"].as_array().map(|a| a.len()).unwrap_or(0), case["t"], case["p"]);
    rep.nontrivial(id.clone());
    check_objective(case, &t, &p, "grid", rep, &id);
    // the same formulas on harness-chosen in-domain floats
    let prob = matches!(obj, "ce" | "bce" | "kl");
    let n = t.len();
    let rt: Vec<f32> = (0..n).map(|_| if prob { 0.02 + 0.96 * rng.unit() } else { rng.unit() * 6.0 - 3.0 }).collect();
    let rp: Vec<f32> = (0..n).map(|_| if prob { 0.02 + 0.96 * rng.unit() } else { rng.unit() * 6.0 - 3.0 }).collect();
    check_objective(case, &rt, &rp, "random-smooth", rep, &id);
    // regression objectives: predictions closer to the target than the machine epsilon, yet different
    if !prob {
        let nt: Vec<f32> = (0..n).map(|_| (rng.unit() - 0.5) / 8.0).collect();
        let np: Vec<f32> = nt.iter().enumerate().map(|(i, t)| t + if i % 2 == 0 { 2.0f32.powi(-25) } else { -(2.0f32.powi(-26)) }).collect();
        if nt.iter().zip(np.iter()).all(|(a, b)| a != b) {
            check_objective(case, &nt, &np, "random-near", rep, &id);
        }
    }
}

// ------------------------------------------------------------------------------------------------
// Group "activation" (C07)
// ------------------------------------------------------------------------------------------------

pub type Env64 = HashMap<String, f64>;

/// Double-precision evaluation of a term (reference values for the smooth activations).
pub fn eval64(t: &Value, env: &Env64) -> f64 {
    let op = t["op"].as_str().expect("term op");
    let a = || eval64(&t["a"], env);
    let b = || eval64(&t["b"], env);
    match op {
        "leaf" => env[t["name"].as_str().unwrap()],
        "const" => t["n"].as_i64().unwrap() as f64 / t["d"].as_i64().unwrap() as f64,
        "add" => a() + b(),
        "sub" => a() - b(),
        "mul" => a() * b(),
        "div" => a() / b(),
        "neg" => -a(),
        "sq" => { let x = a(); x * x }
        "sqrt" => a().sqrt(),
        "exp" => a().exp(),
        "ln" => a().ln(),
        "abs" => a().abs(),
        "sign" => { let x = a(); if x > 0.0 { 1.0 } else if x < 0.0 { -1.0 } else { 0.0 } }
        "tanh" => a().tanh(),
        "cosh" => a().cosh(),
        "max" => a().max(b()),
        "min" => a().min(b()),
        "powi" => a().powi(b() as i32),
        "ifpos" => if eval64(&t["c"], env) > 0.0 { a() } else { b() },
        _ => panic!("harness: unknown term op {}", op),
    }
}

fn point(p: &Value) -> f32 {
    let s = p.get("s").and_then(|s| s.as_i64()).unwrap_or(1) as f32;
    match str_of(p, "k") {
        "k8" => p["v"].as_i64().unwrap() as f32 / 8.0,
        "pow2" => s * (2.0f64.powi(p["e"].as_i64().unwrap() as i32) as f32),
        "max" => s * f32::MAX,
        "max34" => s * (0.75 * f32::MAX),
        "minnormal" => s * f32::MIN_POSITIVE,
        "zero" => s * 0.0,
        k => panic!("harness: unknown point kind {}", k),
    }
}

fn as_rank(rank: u64, v: &[f32]) -> Tensor {
    if rank == 1 {
        Tensor::single(v.to_vec())
    } else {
        // 3-D: two channels when the length is even, rows of the remaining elements
        let c = if v.len() % 2 == 0 && v.len() >= 2 { 2 } else { 1 };
        crate::tensors::triple_rowmajor(&[c, 1, v.len() / c], v)
    }
}

/// Exactly-representable single-operation activations are compared bitwise, smooth ones against the
/// double-precision value of the specification's term.
fn act_close(act: &str, got: f32, want64: f64, want32: f32) -> bool {
    match act {
        "relu" | "leaky" | "linear" => got.to_bits() == want32.to_bits() || (got == 0.0 && want32 == 0.0),
        // tanh and its derivative 1/cosh^2 involve no cancellation: RELATIVE accuracy (tanh(x) ~ x for small x must not be
        // quantised to multiples of 6e-8), with slack only where the result leaves the normal range
        "tanh" => (got as f64 - want64).abs() <= 1e-5 * want64.abs() + 1e-37,
        _ => (got as f64 - want64).abs() <= 1e-5 * want64.abs().max(1.0),
    }
}

fn check_elementwise(act: &str, dir: &str, term: &Value, range: &Value, kink: bool, xs: &[f32], ys: &[f32]) -> Option<Value> {
    let empty = Env::new();
    let (lo, hi) = match range.as_array() {
        Some(r) if r.len() == 2 => (eval(&r[0], &empty), eval(&r[1], &empty)),
        _ => (f32::NEG_INFINITY, f32::INFINITY),
    };
    for (x, y) in xs.iter().zip(ys.iter()) {
        if kink && *x == 0.0 {
            continue;
        }
        if !y.is_finite() {
            return Some(json!({"what": "not finite", "x": x, "bits": x.to_bits(), "y": format!("{}", y), "dir": dir}));
        }
        if !(*y >= lo && *y <= hi) {
            return Some(json!({"what": "outside range", "x": x, "y": y, "range": [lo, hi], "dir": dir}));
        }
        let mut e64 = Env64::new();
        e64.insert("x".to_string(), *x as f64);
        let mut e32 = Env::new();
        e32.insert("x".to_string(), *x);
        let (w64, w32) = (eval64(term, &e64), eval(term, &e32));
        if w64.is_finite() && !act_close(act, *y, w64, w32) {
            return Some(json!({"what": "value", "x": x, "bits": x.to_bits(), "observed": y, "expected": w64, "dir": dir}));
        }
    }
    None
}

fn softmax_ref(x: &[f32]) -> Vec<f64> {
    let m = x.iter().cloned().fold(f32::NEG_INFINITY, f32::max) as f64;
    let e: Vec<f64> = x.iter().map(|v| (*v as f64 - m).exp()).collect();
    let s: f64 = e.iter().sum();
    e.iter().map(|v| v / s).collect()
}

pub fn replay_activation(case: &Value, rep: &mut Report) {
    use neurons::activation::Function;
    match str_of(case, "kind") {
        "elementwise" => {
            let act = str_of(case, "act");
            let dir = str_of(case, "dir");
            let rank = case["rank"].as_u64().unwrap();
            let id = format!("activation:{}:{}:rank{}:{}", act, dir, rank, str_of(case, "class"));
            rep.nontrivial(id.clone());
            let xs: Vec<f32> = case["points"].as_array().unwrap().iter().map(point).collect();
            let input = as_rank(rank, &xs);
            let f = Function::create(&crate::layers::activation(act));
            rep.checks += xs.len() as u64;
            let out = match guarded(|| if dir == "forward" { f.forward(&input) } else { f.backward(&input) }) {
                Ok(o) => o,
                Err(e) => {
                    rep.mismatch("C07", "activation_panicked", &id, json!({"panic": e}), case);
                    return;
                }
            };
            if data_dims(&out.data) != data_dims(&input.data) || shape_dims(&out.shape) != shape_dims(&input.shape) {
                rep.mismatch("C07", "output_shape", &id, json!({"input": data_dims(&input.data), "output": data_dims(&out.data)}), case);
                return;
            }
            let ys = flat(&out);
            if let Some(d) = check_elementwise(act, dir, &case["term"], &case["range"], bool_of(case, "kink"), &xs, &ys) {
                rep.mismatch("C07", &format!("{}_{}", dir, d["what"].as_str().unwrap().replace(' ', "_")), &id, d, case);
                return;
            }
            // flat and 3-D tensors go through different arms of the same function: bit-identical element by element --
            // also AT a kink, where the property does not say which one-sided value is right
            if rank != 1 {
                let flat_in = Tensor::single(xs.clone());
                if let Ok(o1) = guarded(|| if dir == "forward" { f.forward(&flat_in) } else { f.backward(&flat_in) }) {
                    let y1 = flat(&o1);
                    if let Some(k) = (0..ys.len().min(y1.len())).find(|k| ys[*k].to_bits() != y1[*k].to_bits() && !(ys[*k].is_nan() && y1[*k].is_nan())) {
                        rep.mismatch("C07", &format!("{}_differs_between_flat_and_3d", dir), &id, json!({"x": format!("{:e}", xs[k]), "flat": format!("{:e}", y1[k]), "3d": format!("{:e}", ys[k])}), case);
                        return;
                    }
                }
            }
            // backward = derivative of the forward definition (symbolic derivative from the specification)
            if let Some(sym) = case["symbolic"].as_array().and_then(|a| a.first()) {
                for (x, y) in xs.iter().zip(ys.iter()) {
                    if bool_of(case, "kink") && *x == 0.0 {
                        continue;
                    }
                    let mut e64 = Env64::new();
                    e64.insert("x".to_string(), *x as f64);
                    let w = eval64(sym, &e64);
                    if w.is_finite() && (*y as f64 - w).abs() > 1e-5 * w.abs().max(1.0) {
                        rep.mismatch("C07", "backward_is_not_the_derivative_of_forward", &id, json!({"x": x, "observed": y, "derivative": w}), case);
                        return;
                    }
                }
            }
        }
        "softmax" | "softmax-huge" => {
            let f = Function::create(&neurons::activation::Activation::Softmax);
            let (xs, base): (Vec<f32>, Option<Vec<f32>>) = if str_of(case, "kind") == "softmax" {
                let b = vec1(&case["base"]);
                let sh = case["shift"].as_i64().unwrap() as f32;
                (b.iter().map(|v| v + sh).collect(), Some(b))
            } else {
                (case["entries"].as_array().unwrap().iter().map(point).collect(), None)
            };
            let rank = case.get("rank").and_then(|r| r.as_u64()).unwrap_or(1);
            let id = format!("activation:softmax:{:?}:rank{}", xs, rank);
            rep.nontrivial(id.clone());
            rep.checks += 1;
            // 3-D: a single row, and -- when the length allows -- several channels with several rows and columns
            // (soft-max is over ALL elements; their row-major order must survive)
            let n = xs.len();
            let shape3: Vec<usize> = if n % 4 == 0 && n >= 8 { vec![2, 2, n / 4] } else if n % 2 == 0 && n >= 4 { vec![2, 1, n / 2] } else { vec![1, 1, n] };
            let input = if rank == 1 { Tensor::single(xs.clone()) } else { crate::tensors::triple_rowmajor(&shape3, &xs) };
            let out = match guarded(|| f.forward(&input)) {
                Ok(o) => o,
                Err(e) => {
                    rep.mismatch("C07", "softmax_panicked", &id, json!({"panic": e}), case);
                    return;
                }
            };
            let ys = flat(&out);
            let sum: f32 = ys.iter().sum();
            if ys.len() != xs.len() || data_dims(&out.data) != data_dims(&input.data) {
                rep.mismatch("C07", "output_shape", &id, json!({"output": data_dims(&out.data)}), case);
            } else if ys.iter().any(|y| !y.is_finite() || *y < 0.0) || (sum - 1.0).abs() > 1e-5 {
                rep.mismatch("C07", "softmax_not_a_distribution", &id, json!({"x": xs, "y": ys.iter().map(|y| format!("{}", y)).collect::<Vec<_>>(), "sum": format!("{}", sum)}), case);
            } else {
                let r = softmax_ref(&xs);
                if ys.iter().zip(r.iter()).any(|(y, w)| (*y as f64 - w).abs() > 1e-6) {
                    rep.mismatch("C07", "softmax_value", &id, json!({"x": xs, "y": ys, "expected": r}), case);
                } else if let Some(b) = base {
                    // invariance under adding a constant to all inputs
                    let y0 = flat(&f.forward(&Tensor::single(b.clone())));
                    if ys.iter().zip(y0.iter()).any(|(a, b)| (a - b).abs() > 1e-6) {
                        rep.mismatch("C07", "softmax_not_shift_invariant", &id, json!({"x": xs, "y": ys, "unshifted": y0}), case);
                    }
                }
            }
        }
        k => panic!("harness: unknown activation case kind {}", k),
    }
}

/// Sweep over single-precision bit patterns (every `stride`-th finite pattern; stride 1 = all 2^32):
/// forward and backward of every element-wise activation against the specification's terms and ranges.
pub fn sweep_activations(rep: &mut Report, stride: u64, cases: &[Value]) {
    use neurons::activation::Function;
    use rayon::prelude::*;
    let chunk: u64 = 1 << 16;
    let chunks: Vec<u64> = (0..(1u64 << 32) / chunk).collect();
    for case in cases {
        if str_of(case, "kind") != "elementwise" || str_of(case, "class") != "extreme" || case["rank"] != 1 {
            continue;
        }
        let act = str_of(case, "act");
        let dir = str_of(case, "dir");
        let f = Function::create(&crate::layers::activation(act));
        let bad: Vec<Value> = chunks
            .par_iter()
            .filter_map(|c| {
                let start = c * chunk;
                let first = if start % stride == 0 { start } else { start + (stride - start % stride) };
                let xs: Vec<f32> = (first..start + chunk).step_by(stride as usize).map(|b| f32::from_bits(b as u32)).filter(|x| x.is_finite()).collect();
                if xs.is_empty() {
                    return None;
                }
                let input = Tensor::single(xs.clone());
                let out = if dir == "forward" { f.forward(&input) } else { f.backward(&input) };
                check_elementwise(act, dir, &case["term"], &case["range"], bool_of(case, "kink"), &xs, &flat(&out))
            })
            .collect();
        rep.checks += (1u64 << 32) / stride;
        rep.count("sweep_patterns", (1u64 << 32) / stride);
        rep.nontrivial(format!("sweep:{}:{}", act, dir));
        if let Some(d) = bad.first() {
            rep.mismatch("C07", &format!("sweep_{}_{}", dir, d["what"].as_str().unwrap().replace(' ', "_")), &format!("activation:sweep:{}:{}", act, dir), d.clone(), case);
        }
    }
}

// ------------------------------------------------------------------------------------------------
// Group "softmaxce" (C01, soft-max / cross-entropy clause)
// ------------------------------------------------------------------------------------------------

pub fn replay_softmaxce(case: &Value, rep: &mut Report) {
    use neurons::activation::Activation;
    let (n, m) = (usize_of(case, "n"), usize_of(case, "m"));
    let id = format!("softmaxce:n{}m{}seed{}:t{}", n, m, case["seed"], case["t"]);
    rep.nontrivial(id.clone());
    let mut layer = neurons::dense::Dense::create(
        neurons::tensor::Shape::Single(m),
        neurons::tensor::Shape::Single(n),
        &Activation::Softmax,
        true,
        None,
    );
    neurons::verif::set_dense(&mut layer, vec2(&case["W"]), Some(vec1(&case["b"])));
    let x = Tensor::single(vec1(&case["x"]));
    let t: Vec<f32> = case["t"].as_array().unwrap().iter().map(rat).collect();
    let target = Tensor::single(t.clone());
    let obj = neurons::objective::Function::create(neurons::objective::Objective::CrossEntropy, None);
    rep.checks += 1;
    let res = guarded(|| {
        let (pre, post) = layer.forward(&x);
        let (_, g) = obj.loss(&post, &target);
        let (dx, dw, db) = layer.backward(&g, &x, &pre);
        (flat(&pre), flat(&post), flat(&dx), flat(&dw), db.map(|b| flat(&b)))
    });
    let (z, p, dx, dw, db) = match res {
        Ok(r) => r,
        Err(e) => {
            rep.mismatch("C01", "softmax_ce_panicked", &id, json!({"panic": e}), case);
            return;
        }
    };
    // expected gradient at the logits: symbolic derivative of the loss term, evaluated in double precision
    let mut env = Env64::new();
    for i in 0..n {
        env.insert(format!("z{}", i + 1), z[i] as f64);
        env.insert(format!("t{}", i + 1), t[i] as f64);
    }
    let dz: Vec<f64> = (0..n).map(|k| eval64(&case["dz"][k], &env)).collect();
    let xs = flat(&x);
    let w = vec2(&case["W"]);
    // chain rule through z = W x + b
    let want_db: Vec<f64> = dz.clone();
    let want_dw: Vec<f64> = (0..n).flat_map(|i| xs.iter().map(move |xj| (i, *xj as f64))).map(|(i, xj)| dz[i] * xj).collect();
    let want_dx: Vec<f64> = (0..m).map(|j| (0..n).map(|i| w[i][j] as f64 * dz[i]).sum()).collect();
    let near = |a: f32, b: f64| (a as f64 - b).abs() <= 1e-5 * b.abs().max(1.0);
    let got_db = db.unwrap_or_default();
    let ok = got_db.iter().zip(want_db.iter()).all(|(a, b)| near(*a, *b))
        && dw.iter().zip(want_dw.iter()).all(|(a, b)| near(*a, *b))
        && dx.iter().zip(want_dx.iter()).all(|(a, b)| near(*a, *b));
    if ok {
        return;
    }
    // Is it exactly the known deviation: everything scaled by (n - 2) * sum(p^2)?
    let scale: f64 = (n as f64 - 2.0) * p.iter().map(|q| (*q as f64) * (*q as f64)).sum::<f64>();
    let scaled = got_db.iter().zip(want_db.iter()).all(|(a, b)| near(*a, scale * b))
        && dw.iter().zip(want_dw.iter()).all(|(a, b)| near(*a, scale * b))
        && dx.iter().zip(want_dx.iter()).all(|(a, b)| near(*a, scale * b));
    rep.mismatch(
        "C01",
        "softmax_cross_entropy_gradient",
        &id,
        json!({"scaled_by_n_minus_2_times_sum_p_squared": scaled, "scale": scale, "observed_db": got_db, "expected_db": want_db}),
        case,
    );
}

// ------------------------------------------------------------------------------------------------
// Group "layerterm" (C01 / C02 with smooth and leaky activations, term mode)
// ------------------------------------------------------------------------------------------------

pub fn replay_layerterm(case: &Value, rep: &mut Report, rng: &mut Rng) {
    let cfg0 = &case["cfg"];
    let act = str_of(case, "act");
    let kind = str_of(cfg0, "kind");
    let (nx, nk, no) = (usize_of(case, "nx"), usize_of(case, "nk"), usize_of(case, "no"));
    let id = format!("layerterm:{}:{}", cfg0, act);
    rep.nontrivial(id.clone());
    let mut cfg = cfg0.clone();
    cfg["act"] = json!(act);
    let u = |k: &str| cfg0[k].as_u64().unwrap() as usize;
    // rounds 0..2: moderate data; rounds 3 and 4: positive parameters and large inputs of one sign, so that every output
    // fed by more than a few taps has a pre-activation of a few hundred (negative in round 3, positive in round 4):
    // smooth activations saturate there, their derivative is 0 -- never NaN.  Magnitudes keep |pre| below 700, where the
    // double-precision reference itself is still finite.
    let taps = if kind == "dense" { u("c") } else { u("c") * u("kh") * u("kw") } as f32;
    for round in 0..5 {
        let saturating = round >= 3;
        let m = 600.0 / taps;
        let xs: Vec<f32> = (0..nx)
            .map(|_| if saturating { (if round == 3 { -m } else { m }) * (0.75 + 0.25 * rng.unit()) } else { rng.unit() * 3.0 - 1.5 })
            .collect();
        let ks: Vec<f32> = (0..nk).map(|_| if saturating { 0.5 + 0.5 * rng.unit() } else { rng.unit() * 2.0 - 1.0 }).collect();
        let gs: Vec<f32> = (0..no).map(|_| rng.unit() * 2.0 - 1.0 + 0.05).collect();
        let params = if kind == "dense" {
            let (n_in, n_out) = (u("c"), u("f"));
            let w: Vec<Vec<f32>> = (0..n_out).map(|i| ks[i * n_in..(i + 1) * n_in].to_vec()).collect();
            let b: Vec<f32> = if bool_of(cfg0, "bias") { ks[n_out * n_in..].to_vec() } else { vec![0.0; n_out] };
            json!({"W": w, "b": b})
        } else {
            let (f, c, kh, kw) = (u("f"), u("c"), u("kh"), u("kw"));
            let mut it = ks.iter();
            let k: Vec<Vec<Vec<Vec<f32>>>> = (0..f)
                .map(|_| (0..c).map(|_| (0..kh).map(|_| (0..kw).map(|_| *it.next().unwrap()).collect()).collect()).collect())
                .collect();
            json!({"K": k})
        };
        let layer = match guarded(|| crate::layers::build_layer(&cfg, &params)) {
            Ok(l) => l,
            Err(e) => {
                rep.mismatch("C02", "valid_configuration_rejected", &id, json!({"panic": e}), case);
                return;
            }
        };
        let x = if kind == "dense" { Tensor::single(xs.clone()) } else { crate::tensors::triple_rowmajor(&[u("c"), u("h"), u("w")], &xs) };
        let out_shape = usizes(&case["out"]);
        let g = if kind == "dense" { Tensor::single(gs.clone()) } else { crate::tensors::triple_rowmajor(&out_shape, &gs) };
        let mut env = Env64::new();
        for (i, v) in xs.iter().enumerate() { env.insert(format!("x{}", i + 1), *v as f64); }
        for (i, v) in ks.iter().enumerate() { env.insert(format!("k{}", i + 1), *v as f64); }
        for (i, v) in gs.iter().enumerate() { env.insert(format!("g{}", i + 1), *v as f64); }
        rep.checks += 2;
        let res = guarded(|| {
            let (pre, post, max) = layer.forward(&x);
            let (dx, dw, db) = layer.backward(&g, &x, &pre, &max);
            (flat(&pre), flat(&post), flat(&dx), dw.map(|t| flat(&t)).unwrap_or_default(), db.map(|t| flat(&t)).unwrap_or_default())
        });
        let (pre, post, dx, dw, db) = match res {
            Ok(r) => r,
            Err(e) => {
                rep.mismatch("C01", "term_mode_layer_panicked", &id, json!({"panic": e}), case);
                return;
            }
        };
        let near = |a: f32, b: f64, tol: f64| (a as f64 - b).abs() <= tol * b.abs().max(1.0);
        if saturating {
            // the double-precision reference itself must stay finite (it does for |pre| < 700)
            let finite = (0..no).all(|o| eval64(&case["post"][o], &env).is_finite())
                && (0..nx).all(|i| eval64(&case["dx"][i], &env).is_finite())
                && (0..nk).all(|j| eval64(&case["dk"][j], &env).is_finite());
            if !finite {
                continue;
            }
            rep.count("layerterm_saturating_rounds", 1);
        }
        let mut forward_ok = true;
        for o in 0..no {
            let (wp, wq) = (eval64(&case["pre"][o], &env), eval64(&case["post"][o], &env));
            if !near(pre[o], wp, 1e-5) || !near(post[o], wq, 1e-5) {
                forward_ok = false;
                rep.mismatch("C02", &format!("forward_value_term_mode:{}", kind), &id, json!({"round": round, "output": o, "pre": [pre[o] as f64, wp], "post": [post[o] as f64, wq]}), case);
                break;
            }
        }
        if !forward_ok {
            continue; // the expected gradients differentiate the specification's forward
        }
        let mut dk = dw.clone();
        dk.extend(db.iter());
        let mut bad: Option<Value> = None;
        for i in 0..nx {
            let w = eval64(&case["dx"][i], &env);
            if !near(dx[i], w, 1e-4) {
                bad = Some(json!({"round": round, "what": "input gradient", "index": i, "observed": dx[i], "derivative": w}));
                break;
            }
        }
        if bad.is_none() {
            for j in 0..nk {
                let w = eval64(&case["dk"][j], &env);
                if j >= dk.len() || !near(dk[j], w, 1e-4) {
                    bad = Some(json!({"round": round, "what": "parameter gradient", "index": j, "observed": dk.get(j), "derivative": w}));
                    break;
                }
            }
        }
        if let Some(d) = bad {
            rep.mismatch("C01", &format!("gradient_is_not_derivative_term_mode:{}:{}", kind, act), &id, d, case);
            return;
        }
    }
}
