//! Term mode: the evaluator for formulas the specification emits as data (Num.tla), and the replay of
//! optimizer histories (C03), objective cases (C06) and activation cases (C07).
//!
//! The evaluator is the trusted base of term mode: every operation is one IEEE single-precision operation
//! (or the platform's f32 libm function), applied in the order the term prescribes.

use crate::util::*;
use neurons::optimizer;
use neurons::tensor::Tensor;
use serde_json::{json, Value};
use std::collections::HashMap;

pub type Env = HashMap<String, f32>;

pub fn eval(t: &Value, env: &Env) -> f32 {
    let op = t["op"].as_str().expect("term op");
    let a = || eval(&t["a"], env);
    let b = || eval(&t["b"], env);
    match op {
        "leaf" => *env
            .get(t["name"].as_str().unwrap())
            .unwrap_or_else(|| panic!("harness: unbound leaf {}", t["name"])),
        "const" => t["n"].as_i64().unwrap() as f32 / t["d"].as_i64().unwrap() as f32,
        "add" => a() + b(),
        "sub" => a() - b(),
        "mul" => a() * b(),
        "div" => a() / b(),
        "neg" => -a(),
        "sq" => {
            let x = a();
            x * x
        }
        "sqrt" => a().sqrt(),
        "exp" => a().exp(),
        "ln" => a().ln(),
        "abs" => a().abs(),
        "sign" => {
            let x = a();
            if x > 0.0 { 1.0 } else if x < 0.0 { -1.0 } else { 0.0 }
        }
        "tanh" => a().tanh(),
        "cosh" => a().cosh(),
        "max" => a().max(b()),
        "min" => a().min(b()),
        "powi" => a().powi(b() as i32),
        "ifpos" => {
            if eval(&t["c"], env) > 0.0 { a() } else { b() }
        }
        _ => panic!("harness: unknown term op {}", op),
    }
}

/// Run a straight-line program (sequence of guarded assignments) on an environment.
pub fn run_program(program: &Value, env: &mut Env, first: bool) {
    for ins in program.as_array().unwrap() {
        let active = match ins["guard"].as_str().unwrap() {
            "always" => true,
            "first" => first,
            "later" => !first,
            g => panic!("harness: unknown guard {}", g),
        };
        if active {
            let v = eval(&ins["term"], env);
            env.insert(ins["target"].as_str().unwrap().to_string(), v);
        }
    }
}

fn rat(v: &Value) -> f32 {
    v[0].as_i64().unwrap() as f32 / v[1].as_i64().unwrap() as f32
}

fn make_optimizer(kind: &str, o: &Value, hp: &Value) -> optimizer::Optimizer {
    let h = |k: &str| rat(&hp[k]);
    let decay = if bool_of(o, "decay") { Some(h("decay")) } else { None };
    match kind {
        "sgd" => optimizer::SGD::create(h("lr"), decay),
        "sgdm" => optimizer::SGDM::create(h("lr"), h("momentum"), h("dampening"), decay),
        "adam" => optimizer::Adam::create(h("lr"), h("beta1"), h("beta2"), h("eps"), decay),
        "adamw" => optimizer::AdamW::create(h("lr"), h("beta1"), h("beta2"), h("eps"), h("decay")),
        "rmsprop" => optimizer::RMSprop::create(
            h("lr"),
            h("alpha"),
            h("eps"),
            decay,
            if bool_of(o, "momentum") { Some(h("momentum")) } else { None },
            bool_of(o, "centered"),
        ),
        _ => panic!("harness: unknown optimizer kind {}", kind),
    }
}

const N: usize = 6;

/// The three slots: (layer, filter, bias) and how six scalars are laid out.
fn slot_address(slot: usize) -> (usize, usize, bool) {
    match slot {
        1 => (0, 0, false), // dense weights, 2x3 matrix
        2 => (0, 0, true),  // dense bias, vector of 6
        _ => (1, 1, false), // second filter of a convolution, 1x2x3 kernel
    }
}
fn layout(slot: usize, v: &[f32]) -> Tensor {
    match slot {
        1 => Tensor::double(vec![v[0..3].to_vec(), v[3..6].to_vec()]),
        2 => Tensor::single(v.to_vec()),
        _ => Tensor::triple(vec![vec![v[0..3].to_vec(), v[3..6].to_vec()]]),
    }
}
fn state_vectors() -> Vec<Vec<Vec<Tensor>>> {
    let z = [0.0f32; N];
    vec![
        vec![vec![layout(1, &z), layout(2, &z)]],
        vec![vec![layout(3, &z)], vec![layout(3, &z)]],
    ]
}

/// Gradient of element i at the slot's k-th own update (k from 0), per gradient class.
fn gradient(class: &str, k: usize, i: usize, rng_base: u64) -> f32 {
    let mut r = Rng::new(rng_base ^ ((k as u64) << 8) ^ i as u64);
    match class {
        "random" => r.unit() * 2.0 - 1.0,
        "constant" => 0.37 + i as f32 * 0.11,
        "sparse" => if (k + i) % 3 == 0 { r.unit() - 0.5 } else { 0.0 },
        "flipping" => (if k % 2 == 0 { 1.0 } else { -1.0 }) * (0.2 + 0.1 * i as f32),
        "tiny" => 1.0e-20 * (1.0 + i as f32),
        "large" => 1.0e10 * (1.0 + i as f32) * if i % 2 == 0 { 1.0 } else { -1.0 },
        _ => panic!("harness: gradient class"),
    }
}

const CLASSES: [&str; 6] = ["random", "constant", "sparse", "flipping", "tiny", "large"];

fn run_history(case: &Value, class: &str, steps: &[(usize, i32)], seed: u64, rep: &mut Report, id: &str) {
    let kind = str_of(case, "kind");
    let mut opt = make_optimizer(kind, &case["o"], &case["hp"]);
    opt.validate(state_vectors());
    let state_vars: Vec<String> = case["state"].as_array().unwrap().iter().map(|s| s.as_str().unwrap().to_string()).collect();
    let start: Vec<f32> = (0..N).map(|i| 0.5 - 0.2 * i as f32).collect();
    // expected: one environment per (slot, element)
    let mut envs: Vec<Vec<Env>> = (0..4)
        .map(|_| {
            (0..N)
                .map(|i| {
                    let mut e = Env::new();
                    for (name, v) in case["eff"].as_object().unwrap() {
                        e.insert(name.clone(), rat(v));
                    }
                    for s in state_vars.iter() {
                        e.insert(s.clone(), 0.0);
                    }
                    e.insert("w".to_string(), start[i]);
                    e
                })
                .collect()
        })
        .collect();
    let mut values: Vec<Tensor> = (0..4).map(|s| layout(s.max(1), &start)).collect();
    let mut own: Vec<usize> = vec![0; 4];
    let mut own_hist: Vec<Vec<i32>> = vec![Vec::new(); 4];
    for (slot, stepnr) in steps.iter() {
        let g: Vec<f32> = (0..N).map(|i| gradient(class, own[*slot], i, seed)).collect();
        let mut gt = layout(*slot, &g);
        let (layer, filter, bias) = slot_address(*slot);
        let res = guarded(|| {
            let mut v = values[*slot].clone();
            opt.update(layer, filter, bias, *stepnr, &mut v, &mut gt);
            v
        });
        match res {
            Ok(v) => values[*slot] = v,
            Err(e) => {
                rep.mismatch("C03", "update_panicked", id, json!({"panic": e, "class": class, "slot": slot}), case);
                return;
            }
        }
        for i in 0..N {
            let env = &mut envs[*slot][i];
            env.insert("g".to_string(), g[i]);
            env.insert("stepnr".to_string(), *stepnr as f32);
            run_program(&case["program"], env, *stepnr <= 1);
        }
        own[*slot] += 1;
        own_hist[*slot].push(*stepnr);
    }
    rep.checks += 1;
    for slot in 1..=3 {
        if own[slot] == 0 {
            continue;
        }
        let got = flat(&values[slot]);
        for i in 0..N {
            let want = envs[slot][i]["w"];
            let finite_expected = want.is_finite() && want.abs() < 1.0e30;
            if finite_expected && !got[i].is_finite() {
                rep.mismatch(
                    "C03",
                    "parameter_not_finite",
                    id,
                    json!({"class": class, "slot": slot, "element": i, "expected": want, "observed": format!("{}", got[i]), "steps": own[slot]}),
                    case,
                );
                return;
            }
            if finite_expected && !close(got[i], want, 1e-5) {
                rep.mismatch(
                    "C03",
                    "update_rule",
                    id,
                    json!({"class": class, "slot": slot, "element": i, "expected": want, "observed": got[i], "steps": own[slot]}),
                    case,
                );
                return;
            }
        }
    }
    // rank independence: slots with the same own history hold bit-identical values
    for a in 1..=3 {
        for b in (a + 1)..=3 {
            if own[a] > 0 && own_hist[a] == own_hist[b] {
                let (fa, fb) = (flat(&values[a]), flat(&values[b]));
                if fa.iter().zip(fb.iter()).any(|(x, y)| x.to_bits() != y.to_bits() && !(x.is_nan() && y.is_nan())) {
                    rep.mismatch(
                        "C03",
                        "result_depends_on_tensor_rank",
                        id,
                        json!({"class": class, "slots": [a, b], "a": fa, "b": fb}),
                        case,
                    );
                    return;
                }
            }
        }
    }
}

pub fn replay_optimizer(case: &Value, rep: &mut Report, rng: &mut Rng) {
    let hist: Vec<(usize, i32)> = case["hist"]
        .as_array()
        .unwrap()
        .iter()
        .map(|h| (usize_of(h, "slot"), h["stepnr"].as_i64().unwrap() as i32))
        .collect();
    let id = format!("optimizer:{}:{}:zeros{}:{:?}", str_of(case, "kind"), case["o"], case["zeros"], hist);
    rep.nontrivial(id.clone());
    let seed = rng.next();
    for class in CLASSES.iter() {
        run_history(case, class, &hist, seed, rep, &id);
    }
    // long single-slot runs for the robustness clause (constant and flipping gradients)
    for n in case["long"].as_array().unwrap() {
        let n = n.as_u64().unwrap() as usize;
        let steps: Vec<(usize, i32)> = (0..n).map(|k| (1 + (k % 2) * 2, 1 + (k / 4) as i32)).collect();
        for class in ["constant", "flipping", "sparse"] {
            run_history(case, class, &steps, seed, rep, &format!("{}:long{}", id, n));
        }
    }
}
