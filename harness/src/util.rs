//! Shared helpers: JSON <-> nested vectors, exact / tolerant comparison, panic capture, report.

use neurons::tensor::{Data, Shape, Tensor};
use serde_json::{json, Value};
use std::collections::{BTreeMap, HashSet};
use std::panic::{catch_unwind, AssertUnwindSafe};

pub const MAX_MISMATCHES_PER_PROPERTY: usize = 8;

#[derive(Default)]
pub struct Report {
    pub cases: u64,
    pub checks: u64,
    pub distinct: HashSet<String>,
    pub mismatches: Vec<Value>,
    pub per_property: BTreeMap<String, u64>,
    pub samples: Vec<Value>,
    pub counters: BTreeMap<String, u64>,
    pub notes: Vec<String>,
}

impl Report {
    pub fn count(&mut self, key: &str, n: u64) {
        *self.counters.entry(key.to_string()).or_insert(0) += n;
    }
    pub fn nontrivial(&mut self, key: String) {
        self.distinct.insert(key);
    }
    pub fn sample(&mut self, v: Value) {
        if self.samples.len() < 3 {
            self.samples.push(v);
        }
    }
    /// Record a disagreement between the specification's expectation and the implementation.
    pub fn mismatch(&mut self, property: &str, kind: &str, case_id: &str, detail: Value, case: &Value) {
        let per_kind = {
            let c = self.counters.entry(format!("mismatch:{}:{}", property, kind)).or_insert(0);
            *c += 1;
            *c
        };
        let n = self.per_property.entry(property.to_string()).or_insert(0);
        *n += 1;
        // keep the first few of EVERY kind, so that a new kind of disagreement is never hidden behind many
        // instances of a known one
        if per_kind as usize <= MAX_MISMATCHES_PER_PROPERTY {
            self.mismatches.push(json!({
                "property": property, "kind": kind, "case_id": case_id, "detail": detail, "case": case
            }));
        }
    }
    pub fn to_json(&self) -> Value {
        json!({
            "cases": self.cases,
            "checks": self.checks,
            "distinct_nontrivial": self.distinct.len(),
            "mismatch_counts": self.per_property,
            "mismatches": self.mismatches,
            "samples": self.samples,
            "counters": self.counters,
            "notes": self.notes,
        })
    }
}

/// Run `f`, turning a panic into `Err(message)`.
pub fn guarded<T>(f: impl FnOnce() -> T) -> Result<T, String> {
    match catch_unwind(AssertUnwindSafe(f)) {
        Ok(v) => Ok(v),
        Err(e) => {
            if let Some(s) = e.downcast_ref::<&str>() {
                Err(s.to_string())
            } else if let Some(s) = e.downcast_ref::<String>() {
                Err(s.clone())
            } else {
                Err("panic".to_string())
            }
        }
    }
}

pub fn silence_panics() {
    std::panic::set_hook(Box::new(|_| {}));
}

// ---------- JSON -> numbers ------------------------------------------------

/// A number in a case: an integer, or an exact rational {"n":..,"d":..} (rounded once, as IEEE division).
pub fn num(v: &Value) -> f32 {
    if let Some(i) = v.as_i64() {
        i as f32
    } else if let Some(o) = v.as_object() {
        // numerator and denominator may themselves be rationals (division by a rational scalar)
        num(&o["n"]) / num(&o["d"])
    } else if let Some(f) = v.as_f64() {
        f as f32
    } else {
        panic!("harness: not a number: {}", v)
    }
}

pub fn vec1(v: &Value) -> Vec<f32> {
    v.as_array().expect("array").iter().map(num).collect()
}
pub fn vec2(v: &Value) -> Vec<Vec<f32>> {
    v.as_array().expect("array").iter().map(vec1).collect()
}
pub fn vec3(v: &Value) -> Vec<Vec<Vec<f32>>> {
    v.as_array().expect("array").iter().map(vec2).collect()
}
pub fn vec4(v: &Value) -> Vec<Vec<Vec<Vec<f32>>>> {
    v.as_array().expect("array").iter().map(vec3).collect()
}
pub fn usizes(v: &Value) -> Vec<usize> {
    v.as_array()
        .expect("array")
        .iter()
        .map(|x| x.as_u64().expect("usize") as usize)
        .collect()
}
pub fn pair(v: &Value) -> (usize, usize) {
    let a = usizes(v);
    (a[0], a[1])
}

/// Depth of a nested JSON array of numbers (a number or rational object has depth 0).
pub fn depth(v: &Value) -> usize {
    match v.as_array() {
        Some(a) => 1 + a.first().map(depth).unwrap_or(0),
        None => 0,
    }
}

/// Build a tensor from nested JSON arrays (rank 1..4 by nesting depth).
pub fn tensor_from(v: &Value) -> Tensor {
    match depth(v) {
        1 => Tensor::single(vec1(v)),
        2 => Tensor::double(vec2(v)),
        3 => Tensor::triple(vec3(v)),
        4 => Tensor::quadruple(vec4(v)),
        d => panic!("harness: unsupported tensor depth {}", d),
    }
}

pub fn shape_from(v: &Value) -> Shape {
    let d = usizes(v);
    match d.len() {
        1 => Shape::Single(d[0]),
        2 => Shape::Double(d[0], d[1]),
        3 => Shape::Triple(d[0], d[1], d[2]),
        4 => Shape::Quadruple(d[0], d[1], d[2], d[3]),
        n => panic!("harness: unsupported shape rank {}", n),
    }
}

pub fn shape_dims(s: &Shape) -> Vec<usize> {
    match s {
        Shape::Single(a) => vec![*a],
        Shape::Double(a, b) => vec![*a, *b],
        Shape::Triple(a, b, c) => vec![*a, *b, *c],
        Shape::Quadruple(a, b, c, d) => vec![*a, *b, *c, *d],
        Shape::Quintuple(a, b, c, d, e) => vec![*a, *b, *c, *d, *e],
        Shape::Nested(n) => vec![*n],
    }
}

/// Dimensions actually present in the data (independent of the recorded shape).  RAGGED data (a channel or row whose
/// length differs from the first one's -- e.g. one channel stored transposed) has no dimensions: the result then carries
/// an extra marker element, so that it equals no expected shape.
pub fn data_dims(d: &Data) -> Vec<usize> {
    let mut dims = first_dims(d);
    if !regular_for(d, &dims) {
        dims.push(999_999_999);
    }
    dims
}

fn first_dims(d: &Data) -> Vec<usize> {
    match d {
        Data::Single(a) => vec![a.len()],
        Data::Double(a) => vec![a.len(), a.first().map(|r| r.len()).unwrap_or(0)],
        Data::Triple(a) => vec![
            a.len(),
            a.first().map(|r| r.len()).unwrap_or(0),
            a.first().and_then(|r| r.first()).map(|r| r.len()).unwrap_or(0),
        ],
        Data::Quadruple(a) => vec![
            a.len(),
            a.first().map(|r| r.len()).unwrap_or(0),
            a.first().and_then(|r| r.first()).map(|r| r.len()).unwrap_or(0),
            a.first()
                .and_then(|r| r.first())
                .and_then(|r| r.first())
                .map(|r| r.len())
                .unwrap_or(0),
        ],
        _ => vec![],
    }
}

/// Is every row of the data as long as the dimensions say (no ragged rows)?
pub fn data_regular(d: &Data) -> bool {
    regular_for(d, &first_dims(d))
}

fn regular_for(d: &Data, dims: &[usize]) -> bool {
    match d {
        Data::Single(_) => true,
        Data::Double(a) => a.iter().all(|r| r.len() == dims[1]),
        Data::Triple(a) => a
            .iter()
            .all(|c| c.len() == dims[1] && c.iter().all(|r| r.len() == dims[2])),
        Data::Quadruple(a) => a.iter().all(|f| {
            f.len() == dims[1]
                && f.iter()
                    .all(|c| c.len() == dims[2] && c.iter().all(|r| r.len() == dims[3]))
        }),
        _ => true,
    }
}

/// Row-major flat view of any numeric tensor.
pub fn flat(t: &Tensor) -> Vec<f32> {
    match &t.data {
        Data::Single(a) => a.clone(),
        Data::Double(a) => a.iter().flatten().cloned().collect(),
        Data::Triple(a) => a.iter().flatten().flatten().cloned().collect(),
        Data::Quadruple(a) => a.iter().flatten().flatten().flatten().cloned().collect(),
        Data::Nested(ts) => ts.iter().flat_map(flat).collect(),
        Data::NestedOptional(ts) => ts.iter().flatten().flat_map(flat).collect(),
        Data::Quintuple(_) => vec![],
    }
}

/// Flatten nested JSON numbers row-major.
pub fn flat_json(v: &Value, out: &mut Vec<f32>) {
    match v.as_array() {
        Some(a) => a.iter().for_each(|x| flat_json(x, out)),
        None => out.push(num(v)),
    }
}

pub fn dims_json(v: &Value) -> Vec<usize> {
    let mut dims = Vec::new();
    let mut cur = v;
    while let Some(a) = cur.as_array() {
        dims.push(a.len());
        match a.first() {
            Some(x) => cur = x,
            None => break,
        }
    }
    dims
}

pub fn tensor_json(t: &Tensor) -> Value {
    match &t.data {
        Data::Single(a) => json!(a),
        Data::Double(a) => json!(a),
        Data::Triple(a) => json!(a),
        Data::Quadruple(a) => json!(a),
        Data::Nested(ts) => Value::Array(ts.iter().map(tensor_json).collect()),
        Data::NestedOptional(ts) => Value::Array(
            ts.iter()
                .map(|t| t.as_ref().map(tensor_json).unwrap_or(Value::Null))
                .collect(),
        ),
        Data::Quintuple(_) => Value::Null,
    }
}

fn same_f32(a: f32, b: f32) -> bool {
    a == b || (a.is_nan() && b.is_nan())
}

/// Exact comparison of a tensor with nested JSON expectations: same dimensions (taken from the data),
/// same row-major values.  Returns a description of the first difference.
pub fn diff_exact(t: &Tensor, expect: &Value) -> Option<String> {
    let want_dims = dims_json(expect);
    let got_dims = data_dims(&t.data);
    if want_dims != got_dims {
        return Some(format!("dimensions: expected {:?}, observed {:?}", want_dims, got_dims));
    }
    if shape_dims(&t.shape) != got_dims {
        return Some(format!(
            "recorded shape {:?} does not match data dimensions {:?}",
            shape_dims(&t.shape),
            got_dims
        ));
    }
    let mut want = Vec::new();
    flat_json(expect, &mut want);
    let got = flat(t);
    diff_flat_exact(&got, &want)
}

pub fn diff_flat_exact(got: &[f32], want: &[f32]) -> Option<String> {
    if got.len() != want.len() {
        return Some(format!("length: expected {}, observed {}", want.len(), got.len()));
    }
    for (i, (g, w)) in got.iter().zip(want.iter()).enumerate() {
        if !same_f32(*g, *w) {
            return Some(format!("element {}: expected {}, observed {}", i, w, g));
        }
    }
    None
}

pub fn close(got: f32, want: f32, tol: f32) -> bool {
    if same_f32(got, want) {
        return true;
    }
    if !got.is_finite() || !want.is_finite() {
        return false;
    }
    (got - want).abs() <= tol * want.abs().max(1.0)
}

pub fn diff_flat_close(got: &[f32], want: &[f32], tol: f32) -> Option<String> {
    if got.len() != want.len() {
        return Some(format!("length: expected {}, observed {}", want.len(), got.len()));
    }
    for (i, (g, w)) in got.iter().zip(want.iter()).enumerate() {
        if !close(*g, *w, tol) {
            return Some(format!("element {}: expected {}, observed {}", i, w, g));
        }
    }
    None
}

pub fn str_of<'a>(v: &'a Value, key: &str) -> &'a str {
    v[key].as_str().unwrap_or_else(|| panic!("harness: missing string field {}", key))
}
pub fn usize_of(v: &Value, key: &str) -> usize {
    v[key].as_u64().unwrap_or_else(|| panic!("harness: missing integer field {}", key)) as usize
}
pub fn bool_of(v: &Value, key: &str) -> bool {
    v[key].as_bool().unwrap_or_else(|| panic!("harness: missing boolean field {}", key))
}

/// Small deterministic generator for the harness's own choices (seeded by VERIF_SEED).
pub struct Rng(pub u64);
impl Rng {
    pub fn new(seed: u64) -> Self {
        Rng(seed.wrapping_mul(0x9E37_79B9_7F4A_7C15).wrapping_add(0x1234_5678_9ABC_DEF1))
    }
    pub fn next(&mut self) -> u64 {
        self.0 ^= self.0 << 13;
        self.0 ^= self.0 >> 7;
        self.0 ^= self.0 << 17;
        self.0
    }
    pub fn below(&mut self, n: u64) -> u64 {
        self.next() % n.max(1)
    }
    pub fn range(&mut self, lo: i64, hi: i64) -> i64 {
        lo + (self.below((hi - lo + 1) as u64) as i64)
    }
    pub fn unit(&mut self) -> f32 {
        (self.next() >> 40) as f32 / (1u64 << 24) as f32
    }
    pub fn pick<'a, T>(&mut self, xs: &'a [T]) -> &'a T {
        &xs[self.below(xs.len() as u64) as usize]
    }
}

/// Element-wise sum written out by hand (the reference descent of C04 must not trust `Tensor::add_inplace`):
/// `a[i] += b[i]` at every position of tensors of identical structure, nested lists position by position.
pub fn add_tensors(a: &mut Tensor, b: &Tensor) {
    match (&mut a.data, &b.data) {
        (Data::Single(x), Data::Single(y)) => {
            assert_eq!(x.len(), y.len(), "harness: add_tensors length");
            for i in 0..x.len() {
                x[i] += y[i];
            }
        }
        (Data::Double(x), Data::Double(y)) => {
            assert_eq!(x.len(), y.len(), "harness: add_tensors rows");
            for i in 0..x.len() {
                assert_eq!(x[i].len(), y[i].len(), "harness: add_tensors columns");
                for j in 0..x[i].len() {
                    x[i][j] += y[i][j];
                }
            }
        }
        (Data::Triple(x), Data::Triple(y)) => {
            assert_eq!(x.len(), y.len());
            for i in 0..x.len() {
                assert_eq!(x[i].len(), y[i].len());
                for j in 0..x[i].len() {
                    assert_eq!(x[i][j].len(), y[i][j].len());
                    for k in 0..x[i][j].len() {
                        x[i][j][k] += y[i][j][k];
                    }
                }
            }
        }
        (Data::Quadruple(x), Data::Quadruple(y)) => {
            assert_eq!(x.len(), y.len());
            for i in 0..x.len() {
                assert_eq!(x[i].len(), y[i].len());
                for j in 0..x[i].len() {
                    assert_eq!(x[i][j].len(), y[i][j].len());
                    for k in 0..x[i][j].len() {
                        assert_eq!(x[i][j][k].len(), y[i][j][k].len());
                        for l in 0..x[i][j][k].len() {
                            x[i][j][k][l] += y[i][j][k][l];
                        }
                    }
                }
            }
        }
        (Data::Nested(x), Data::Nested(y)) => {
            assert_eq!(x.len(), y.len());
            for i in 0..x.len() {
                add_tensors(&mut x[i], &y[i]);
            }
        }
        (Data::NestedOptional(x), Data::NestedOptional(y)) => {
            assert_eq!(x.len(), y.len());
            for i in 0..x.len() {
                match (x[i].as_mut(), y[i].as_ref()) {
                    (Some(p), Some(q)) => add_tensors(p, q),
                    (None, None) => (),
                    _ => panic!("harness: add_tensors optional pattern"),
                }
            }
        }
        _ => panic!("harness: add_tensors on different kinds of data"),
    }
}
