//! Group "tutil": tensor utilities beyond the listed properties (specification growth, check X01):
//! one_hot, argmax tie rule, pad3d, upsample3d, resize, get_triple / as_triple, quadruple_to_vec_triple, hadamard3d, dropout mask.

use crate::util::*;
use neurons::tensor::{self, Shape, Tensor};
use serde_json::{json, Value};

pub fn replay_tutil(case: &Value, rep: &mut Report) {
    let kind = str_of(case, "kind");
    let id = format!("tutil:{}:{}", kind, {
        let mut c = case.clone();
        if let Some(o) = c.as_object_mut() {
            o.remove("result");
            o.remove("x");
            o.remove("mask");
            o.remove("y");
        }
        c.to_string()
    });
    rep.nontrivial(id.clone());
    rep.checks += 1;
    match kind {
        "one_hot" => {
            let (v, n) = (usize_of(case, "v"), usize_of(case, "n"));
            match (guarded(|| Tensor::one_hot(v, n)), str_of(case, "outcome")) {
                (Ok(t), "ok") => {
                    if let Some(d) = diff_exact(&t, &case["result"]) {
                        rep.mismatch("X01", "one_hot_value", &id, json!({"diff": d}), case);
                    }
                }
                (Err(_), "panic") => (),
                (Ok(_), _) => rep.mismatch("X01", "one_hot_out_of_range_accepted", &id, json!({}), case),
                (Err(e), _) => rep.mismatch("X01", "one_hot_panicked", &id, json!({"panic": e}), case),
            }
        }
        "argmax" => {
            let t = Tensor::single(vec1(&case["v"]));
            match guarded(|| t.argmax()) {
                Ok(i) if i == usize_of(case, "result") => (),
                Ok(i) => rep.mismatch("X01", "argmax_tie_rule", &id, json!({"observed": i, "expected": case["result"]}), case),
                Err(e) => rep.mismatch("X01", "argmax_panicked", &id, json!({"panic": e}), case),
            }
        }
        "pad3d" | "upsample3d" => {
            let x = vec3(&case["x"]);
            let into = (usize_of(case, "H"), usize_of(case, "W"));
            let got = if kind == "pad3d" {
                guarded(|| tensor::pad3d(&x, into))
            } else {
                let stride = (usize_of(case, "sh"), usize_of(case, "sw"));
                guarded(|| tensor::upsample3d(&x, into, stride))
            };
            match got {
                Ok(y) => {
                    if let Some(d) = diff_exact(&Tensor::triple(y), &case["result"]) {
                        rep.mismatch("X01", &format!("{}_value", kind), &id, json!({"diff": d}), case);
                    }
                }
                Err(e) => rep.mismatch("X01", &format!("{}_panicked", kind), &id, json!({"panic": e}), case),
            }
        }
        "resize" => {
            let x = Tensor::triple(vec3(&case["x"]));
            let shape = Shape::Triple(usize_of(case, "nc"), usize_of(case, "nh"), usize_of(case, "nw"));
            match guarded(|| x.resize(shape)) {
                Ok(y) => {
                    let mut want = Vec::new();
                    flat_json(&case["result"], &mut want);
                    if data_dims(&y.data) != vec![usize_of(case, "nc"), usize_of(case, "nh"), usize_of(case, "nw")] {
                        rep.mismatch("X01", "resize_shape", &id, json!({"observed": data_dims(&y.data)}), case);
                    } else if let Some(d) = diff_flat_close(&flat(&y), &want, 1e-6) {
                        rep.mismatch("X01", "resize_value", &id, json!({"diff": d}), case);
                    }
                }
                Err(e) => rep.mismatch("X01", "resize_panicked", &id, json!({"panic": e}), case),
            }
        }
        "get_triple" => {
            let (c, h, w) = (usize_of(case, "c"), usize_of(case, "h"), usize_of(case, "w"));
            let x = if str_of(case, "from") == "vector" { Tensor::single(vec1(&case["x"])) } else { Tensor::triple(vec3(&case["x"])) };
            match guarded(|| x.get_triple(&Shape::Triple(c, h, w))) {
                Ok(y) => {
                    if let Some(d) = diff_exact(&Tensor::triple(y), &case["result"]) {
                        rep.mismatch("X01", "get_triple_value", &id, json!({"diff": d}), case);
                    }
                }
                Err(e) => rep.mismatch("X01", "get_triple_panicked", &id, json!({"panic": e}), case),
            }
            if str_of(case, "from") == "tensor" {
                // as_triple is the identity view
                match guarded(|| x.as_triple().clone()) {
                    Ok(y) => {
                        if let Some(d) = diff_exact(&Tensor::triple(y), &case["result"]) {
                            rep.mismatch("X01", "as_triple_value", &id, json!({"diff": d}), case);
                        }
                    }
                    Err(e) => rep.mismatch("X01", "as_triple_panicked", &id, json!({"panic": e}), case),
                }
            }
        }
        "split_quad" => {
            let x = Tensor::quadruple(vec4(&case["x"]));
            match guarded(|| x.quadruple_to_vec_triple()) {
                Ok(parts) => {
                    let want = case["result"].as_array().unwrap();
                    if parts.len() != want.len() {
                        rep.mismatch("X01", "split_quad_count", &id, json!({"observed": parts.len()}), case);
                    } else {
                        for (k, (p, w)) in parts.iter().zip(want).enumerate() {
                            let dims_ok = shape_dims(&p.shape) == data_dims(&p.data);
                            if let Some(d) = diff_exact(p, w) {
                                rep.mismatch("X01", "split_quad_value", &id, json!({"part": k, "diff": d}), case);
                                break;
                            } else if !dims_ok {
                                rep.mismatch("X01", "split_quad_shape", &id, json!({"part": k, "shape": shape_dims(&p.shape)}), case);
                                break;
                            }
                        }
                    }
                }
                Err(e) => rep.mismatch("X01", "split_quad_panicked", &id, json!({"panic": e}), case),
            }
        }
        "hadamard3d" => {
            let (a, b) = (vec3(&case["x"]), vec3(&case["y"]));
            let scalar = 1.0 / (1u64 << case["k"].as_u64().unwrap()) as f32;
            match guarded(|| tensor::hadamard3d(&a, &b, scalar)) {
                Ok(y) => {
                    let mut want = Vec::new();
                    flat_json(&case["result"], &mut want);
                    let y = Tensor::triple(y);
                    if data_dims(&y.data) != vec![usize_of(case, "c"), usize_of(case, "h"), usize_of(case, "w")] {
                        rep.mismatch("X01", "hadamard3d_shape", &id, json!({"observed": data_dims(&y.data)}), case);
                    } else if let Some(d) = diff_flat_exact(&flat(&y), &want) {
                        rep.mismatch("X01", "hadamard3d_value", &id, json!({"diff": d}), case);
                    }
                }
                Err(e) => rep.mismatch("X01", "hadamard3d_panicked", &id, json!({"panic": e}), case),
            }
        }
        "dropout" => {
            let n = usize_of(case, "n");
            let rate = case["a"].as_i64().unwrap() as f32 / (1u64 << case["k"].as_u64().unwrap()) as f32;
            let mask: Vec<bool> = case["mask"].as_array().unwrap().iter().map(|b| b.as_bool().unwrap()).collect();
            // the mask depends only on the element count: the same for every rank, and for every call
            for t0 in [Tensor::single(vec![1.0; n]), Tensor::triple(vec![vec![vec![1.0; n]]]), Tensor::double(vec![vec![1.0; n]])] {
                for _ in 0..2 {
                    let mut t = t0.clone();
                    match guarded(|| {
                        t.dropout(rate);
                        flat(&t)
                    }) {
                        Ok(v) => {
                            let got: Vec<bool> = v.iter().map(|x| *x == 0.0).collect();
                            if got != mask {
                                rep.mismatch("X01", "dropout_mask", &id, json!({"expected": mask, "observed": got, "rate": rate}), case);
                                return;
                            }
                        }
                        Err(e) => {
                            rep.mismatch("X01", "dropout_panicked", &id, json!({"panic": e}), case);
                            return;
                        }
                    }
                }
            }
        }
        k => panic!("harness: unknown tutil kind {}", k),
    }
}
