//! Group "random" (C18): generator records enumerated by MC_C18 replayed exactly, plus an exhaustive
//! sweep of all 2^31 - 2 states against the specification's range / bounds predicates.

use crate::util::*;
use neurons::random::Generator;
use neurons::tensor::Tensor;
use rayon::prelude::*;
use serde_json::{json, Value};

const PAIRS: [(f32, f32); 18] = [
    (0.0, 1.0), (-1.0, 1.0), (-7.7, -0.1), (0.1, 0.3), (-0.3, -0.1), (1.0e-3, 1.1e-3),
    (-1.0e6, 1.0e6), (5.0, 5.0), (-100.0, -99.9), (0.0, 3.0e-39), (16777215.0, 16777216.0), (-2.5, 7.25),
    // degenerate and narrower-than-epsilon intervals around ordinary magnitudes
    (0.0, 0.0), (1.0, 1.0), (-1.0, -1.0), (0.0, 1.0e-8),
    // degenerate intervals at constants that are not short dyadic numbers
    (0.1, 0.1), (-0.3, -0.3),
];

fn exp2(e: i64) -> f32 {
    (2.0f64).powi(e as i32) as f32
}

pub fn replay_random(case: &Value, rep: &mut Report) {
    match str_of(case, "kind") {
        "index" => {
            let x = case["x"].as_u64().unwrap();
            let len = usize_of(case, "len");
            let id = format!("random:index:x{}:len{}", x, len);
            let (m, e) = (case["m"].as_i64().unwrap(), case["e"].as_i64().unwrap());
            let ratio = m as f32 * exp2(e - 31); // exact: the specification's model of fl(next)/fl(2^31-2)
            rep.checks += 3;
            if bool_of(case, "one") {
                rep.nontrivial(format!("one:{}", x));
            } else {
                rep.nontrivial(format!("x{}", x % 1000));
            }
            // index used by shuffle: floor(generate(0, len)) must be a valid position (and is the modelled one)
            match guarded(|| Generator::create(x).generate(0.0, len as f32)) {
                Err(p) => rep.mismatch("C18", "generate_panicked", &id, json!({"panic": p}), case),
                Ok(v) => {
                    if !(v >= 0.0 && v <= len as f32) {
                        rep.mismatch("C18", "value_out_of_range", &id, json!({"min": 0, "max": len, "value": v}), case);
                    }
                    let want = usize_of(case, "index");
                    let raw = usize_of(case, "raw");
                    // the documented formula gives `raw`; the contract clamps it below len
                    if (v as usize) != want && (v as usize) != raw {
                        rep.mismatch("C18", "index_differs_from_model", &id, json!({"expected": want, "raw": raw, "observed": v}), case);
                    }
                }
            }
            // shuffle never panics and returns a permutation
            let mut values: Vec<usize> = (0..len).collect();
            match guarded(|| {
                Generator::create(x).shuffle(&mut values);
            }) {
                Err(p) => rep.mismatch("C18", "shuffle_panicked", &id, json!({"panic": p, "successor_ratio_is_one": case["one"]}), case),
                Ok(()) => {
                    let mut sorted = values.clone();
                    sorted.sort();
                    if sorted != (0..len).collect::<Vec<usize>>() {
                        rep.mismatch("C18", "shuffle_not_a_permutation", &id, json!({"result": values}), case);
                    }
                }
            }
            // next-state function, to the 24 bits generate exposes: generate(0, 2^31) = RNE24(next)
            if !bool_of(case, "one") {
                match guarded(|| Generator::create(x).generate(0.0, 2147483648.0)) {
                    Err(p) => rep.mismatch("C18", "generate_panicked", &id, json!({"panic": p}), case),
                    Ok(v) => {
                        if v != m as f32 * exp2(e) {
                            rep.mismatch("C18", "sequence_differs_from_minstd", &id, json!({"expected": m as f32 * exp2(e), "observed": v}), case);
                        }
                    }
                }
            }
            // generate(min, max) in [min, max]; equal to the documented formula whenever that lies in the interval
            for (lo, hi) in PAIRS.iter() {
                rep.checks += 1;
                match guarded(|| Generator::create(x).generate(*lo, *hi)) {
                    Err(p) => rep.mismatch("C18", "generate_panicked", &id, json!({"panic": p, "min": lo, "max": hi}), case),
                    Ok(v) => {
                        if !(v >= *lo && v <= *hi) {
                            rep.mismatch("C18", "value_out_of_range", &id, json!({"min": lo, "max": hi, "value": v, "successor_ratio_is_one": case["one"]}), case);
                        }
                        let formula = ratio * (hi - lo) + lo;
                        if formula >= *lo && formula <= *hi && v.to_bits() != formula.to_bits() {
                            rep.mismatch("C18", "value_differs_from_documented_formula", &id, json!({"min": lo, "max": hi, "value": v, "formula": formula}), case);
                        }
                    }
                }
            }
            // the interval of one call says nothing about the next: a generator asked for (0, 1) and then for (10, 20) answers the
            // second call from ITS interval, with the state the second draw of any sequence from this seed has
            let mixed = guarded(|| {
                let mut g = Generator::create(x);
                let _ = g.generate(0.0, 1.0);
                let second = g.generate(10.0, 20.0);
                let mut h = Generator::create(x);
                let _ = h.generate(10.0, 20.0);
                (second, h.generate(10.0, 20.0))
            });
            rep.checks += 1;
            match mixed {
                Err(p) => rep.mismatch("C18", "generate_panicked", &id, json!({"panic": p, "sequence": "(0,1) then (10,20)"}), case),
                Ok((second, reference)) => {
                    if !(second >= 10.0 && second <= 20.0) || second.to_bits() != reference.to_bits() {
                        rep.mismatch("C18", "value_depends_on_the_interval_of_an_earlier_call", &id, json!({"second": second, "reference": reference}), case);
                    }
                }
            }
            // pure function of the seed
            let a: Vec<u32> = { let mut g = Generator::create(x); (0..4).map(|_| g.generate(-1.0, 1.0).to_bits()).collect() };
            let b: Vec<u32> = { let mut g = Generator::create(x); (0..4).map(|_| g.generate(-1.0, 1.0).to_bits()).collect() };
            if a != b {
                rep.mismatch("C18", "sequence_not_a_function_of_the_seed", &id, json!({}), case);
            }
        }
        "shuffle" => {
            let x = case["x"].as_u64().unwrap();
            let len = usize_of(case, "len");
            let id = format!("random:shuffle:x{}:len{}", x, len);
            rep.checks += 1;
            rep.nontrivial(id.clone());
            let mut values: Vec<usize> = (1..=len).collect();
            match guarded(|| {
                Generator::create(x).shuffle(&mut values);
            }) {
                Err(p) => rep.mismatch("C18", "shuffle_panicked", &id, json!({"panic": p}), case),
                Ok(()) => {
                    let want = usizes(&case["result"]);
                    let mut sorted = values.clone();
                    sorted.sort();
                    if sorted != (1..=len).collect::<Vec<usize>>() {
                        rep.mismatch("C18", "shuffle_not_a_permutation", &id, json!({"result": values}), case);
                    } else if values != want {
                        // allowed only where the contract's clamp differs from the raw formula: never for valid indices
                        rep.mismatch("C18", "shuffle_differs_from_model", &id, json!({"expected": want, "observed": values}), case);
                    }
                }
            }
        }
        "seed" => {
            let l = case["limbs"].as_array().unwrap();
            let seed: u64 = (l[0].as_u64().unwrap() << 62).wrapping_add(l[1].as_u64().unwrap() << 31).wrapping_add(l[2].as_u64().unwrap());
            let id = format!("random:seed:{}", seed);
            rep.checks += 1;
            rep.nontrivial(id.clone());
            let res = guarded(|| {
                let mut g = Generator::create(seed);
                let a = g.generate(0.0, 2147483648.0);
                let b = g.generate(0.0, 2147483648.0);
                let mut v: Vec<usize> = (0..7).collect();
                Generator::create(seed).shuffle(&mut v);
                (a, b, v)
            });
            match res {
                Err(p) => rep.mismatch("C18", "large_seed_panicked", &id, json!({"panic": p, "seed": seed}), case),
                Ok((a, b, v)) => {
                    let wa = case["m1"].as_i64().unwrap() as f32 * exp2(case["e1"].as_i64().unwrap());
                    let wb = case["m2"].as_i64().unwrap() as f32 * exp2(case["e2"].as_i64().unwrap());
                    if !(a >= 0.0 && a <= 2147483648.0 && b >= 0.0 && b <= 2147483648.0) {
                        rep.mismatch("C18", "value_out_of_range", &id, json!({"seed": seed, "values": [a, b]}), case);
                    } else if a != wa || b != wb {
                        rep.mismatch("C18", "sequence_differs_from_minstd", &id, json!({"seed": seed, "expected": [wa, wb], "observed": [a, b]}), case);
                    }
                    let mut s = v.clone();
                    s.sort();
                    if s != (0..7).collect::<Vec<usize>>() {
                        rep.mismatch("C18", "shuffle_not_a_permutation", &id, json!({"seed": seed}), case);
                    }
                    // the sequence is a function of the seed alone: a draw over a degenerate or any other interval advances
                    // the state exactly like every other draw
                    for (lo, hi) in [(0.5f32, 0.5f32), (0.0, 0.0), (-3.0, 8.0)] {
                        match guarded(|| {
                            let mut g = Generator::create(seed);
                            let first = g.generate(lo, hi);
                            (first, g.generate(0.0, 2147483648.0))
                        }) {
                            Err(p) => rep.mismatch("C18", "generate_panicked", &id, json!({"panic": p, "seed": seed, "min": lo, "max": hi}), case),
                            Ok((first, second)) => {
                                if !(first >= lo && first <= hi) {
                                    rep.mismatch("C18", "value_out_of_range", &id, json!({"seed": seed, "min": lo, "max": hi, "value": first}), case);
                                }
                                if second != wb {
                                    rep.mismatch("C18", "sequence_depends_on_the_requested_intervals", &id, json!({"seed": seed, "first_interval": [lo, hi], "expected_second": wb, "observed_second": second}), case);
                                }
                            }
                        }
                    }
                }
            }
        }
        "bigshuffle" => {
            // vectors longer than 2^24 (where len - 1 is no longer exact in single precision), generator in one of the
            // states whose next draw has ratio exactly one: no panic, and the result is a permutation
            let x = case["x"].as_u64().unwrap();
            let len = usize_of(case, "len");
            let id = format!("random:bigshuffle:x{}:len{}", x, len);
            rep.checks += 1;
            rep.nontrivial(id.clone());
            let mut values: Vec<usize> = (0..len).collect();
            match guarded(|| {
                Generator::create(x).shuffle(&mut values);
            }) {
                Err(p) => rep.mismatch("C18", "shuffle_panicked", &id, json!({"panic": p, "len": len}), case),
                Ok(()) => {
                    let mut seen = vec![false; len];
                    let mut ok = values.len() == len;
                    for v in values.iter() {
                        let i = *v;
                        if i >= len || seen[i] {
                            ok = false;
                            break;
                        }
                        seen[i] = true;
                    }
                    if !ok {
                        rep.mismatch("C18", "shuffle_not_a_permutation", &id, json!({"len": len}), case);
                    }
                }
            }
        }
        "tensor" => {
            // randomly initialised tensors: requested shape at every nesting position, entries in the requested interval
            let dims = usizes(&case["shape"]);
            let id = format!("random:tensor:{:?}", dims);
            rep.nontrivial(id.clone());
            let shape = shape_from(&case["shape"]);
            // a request the library refuses (a shape it has no random initialiser for) must leave nothing behind: the
            // valid requests that follow are served as if it had never been made
            let _ = guarded(|| Tensor::random(neurons::tensor::Shape::Quintuple(1, 1, 1, 1, 1), 0.0, 1.0));
            for (lo, hi) in [(-1.0f32, 1.0f32), (-7.7, -0.1), (0.25, 0.25), (0.1, 0.1), (1.0, 2.0)] {
                rep.checks += 1;
                match guarded(|| Tensor::random(shape.clone(), lo, hi)) {
                    Err(p) => rep.mismatch("C18", "tensor_random_panicked", &id, json!({"panic": p}), case),
                    Ok(t) => {
                        let v = flat(&t);
                        if !nested_matches(&t.data, &dims) || shape_dims(&t.shape) != dims || v.len() != usize_of(case, "count") {
                            rep.mismatch("C18", "tensor_random_shape", &id, json!({"dims": dims, "observed_outer_dims": data_dims(&t.data), "entries": v.len()}), case);
                        } else if v.iter().any(|x| !(*x >= lo && *x <= hi)) {
                            rep.mismatch("C18", "tensor_random_range", &id, json!({"dims": dims, "min": lo, "max": hi}), case);
                        }
                    }
                }
            }
        }
        k => panic!("harness: unknown random kind {}", k),
    }
}

/// Every nested vector has exactly the requested length, at every position.
fn nested_matches(d: &neurons::tensor::Data, dims: &[usize]) -> bool {
    use neurons::tensor::Data;
    match (d, dims.len()) {
        (Data::Single(a), 1) => a.len() == dims[0],
        (Data::Double(a), 2) => a.len() == dims[0] && a.iter().all(|r| r.len() == dims[1]),
        (Data::Triple(a), 3) => a.len() == dims[0] && a.iter().all(|r| r.len() == dims[1] && r.iter().all(|q| q.len() == dims[2])),
        (Data::Quadruple(a), 4) => {
            a.len() == dims[0]
                && a.iter().all(|r| r.len() == dims[1] && r.iter().all(|q| q.len() == dims[2] && q.iter().all(|z| z.len() == dims[3])))
        }
        _ => false,
    }
}

/// Exhaustive sweep over all generator states (thorough tier): the specification's predicates
/// "value in [min, max]" and "index < len" for 18 intervals and 10 lengths.
pub fn sweep(rep: &mut Report, stride: u64) {
    let m: u64 = 2147483647;
    let lens: [usize; 10] = [1, 2, 3, 5, 7, 10, 16, 33, 64, 1000];
    let chunks: Vec<u64> = (0..4096).collect();
    let per = m / 4096 + 1;
    let bad: Vec<(u64, String)> = chunks
        .par_iter()
        .flat_map(|c| {
            let mut out = Vec::new();
            let mut x = c * per + 1;
            let end = ((c + 1) * per).min(m - 1);
            while x <= end {
                for (lo, hi) in PAIRS.iter() {
                    // a panic inside the code under test is data, not a harness failure
                    match std::panic::catch_unwind(|| Generator::create(x).generate(*lo, *hi)) {
                        Ok(v) => {
                            if !(v >= *lo && v <= *hi) && out.len() < 4 {
                                out.push((x, format!("generate({}, {}) = {}", lo, hi, v)));
                            }
                        }
                        Err(_) => {
                            if out.len() < 4 {
                                out.push((x, format!("generate({}, {}) panicked", lo, hi)));
                            }
                        }
                    }
                }
                // shuffle itself must stay in bounds (it may clamp the drawn index) and return a permutation
                for len in [1usize, 2, 3, 5].iter() {
                    let mut v: Vec<usize> = (0..*len).collect();
                    let ok = std::panic::catch_unwind(std::panic::AssertUnwindSafe(|| Generator::create(x).shuffle(&mut v))).is_ok();
                    let mut sorted = v.clone();
                    sorted.sort();
                    if (!ok || sorted != (0..*len).collect::<Vec<usize>>()) && out.len() < 4 {
                        out.push((x, format!("shuffle of length {} {}", len, if ok { "is not a permutation" } else { "panicked" })));
                    }
                }
                // the value used as an index never exceeds the length
                for len in lens.iter() {
                    let v = Generator::create(x).generate(0.0, *len as f32);
                    if !(v >= 0.0 && v <= *len as f32) && out.len() < 4 {
                        out.push((x, format!("generate(0, {}) = {}", len, v)));
                    }
                }
                x += stride;
            }
            out
        })
        .collect();
    rep.count("sweep_states", (m - 1) / stride);
    rep.checks += (m - 1) / stride * 22;
    for (x, what) in bad.iter().take(20) {
        rep.mismatch("C18", "sweep_state_violates_range_or_bounds", &format!("random:sweep:x{}", x), json!({"state": x, "what": what}), &json!({"group": "random", "kind": "index", "x": x, "sweep": true}));
    }
    rep.count("sweep_violating_states", bad.len() as u64);
}
