//! Groups "reshape" (C14) and "arith" (C15): replay of specification behaviours on real tensors,
//! and randomized drivers recording traces for validation against the specification.

use crate::util::*;
use neurons::tensor::{Shape, Tensor};
use serde_json::{json, Value};

/// Build a 3-D tensor directly (not through `reshape`, which is under test).
pub fn triple_rowmajor(shape: &[usize], flat: &[f32]) -> Tensor {
    let (c, h, w) = (shape[0], shape[1], shape[2]);
    let mut it = flat.iter();
    Tensor::triple(
        (0..c)
            .map(|_| (0..h).map(|_| (0..w).map(|_| *it.next().unwrap()).collect()).collect())
            .collect(),
    )
}

fn start_tensor(shape: &[usize]) -> Tensor {
    let n: usize = shape.iter().product();
    let flat: Vec<f32> = (1..=n).map(|i| i as f32).collect();
    if shape.len() == 1 {
        Tensor::single(flat)
    } else {
        triple_rowmajor(shape, &flat)
    }
}

/// Apply one step of a reshape behaviour; returns (outcome, tensor after).
pub fn apply_reshape_step(t: &Tensor, op: &str, to: &[usize]) -> (String, Tensor) {
    let input = t.clone();
    let result = match op {
        "reshape" => {
            let shape = match to.len() {
                1 => Shape::Single(to[0]),
                3 => Shape::Triple(to[0], to[1], to[2]),
                _ => panic!("harness: reshape target rank"),
            };
            guarded(move || input.reshape(shape))
        }
        "flatten" => guarded(move || input.flatten()),
        _ => panic!("harness: unknown reshape op {}", op),
    };
    match result {
        Ok(t2) => ("ok".to_string(), t2),
        Err(_) => ("panic".to_string(), t.clone()),
    }
}

pub fn replay_reshape(case: &Value, rep: &mut Report) {
    let start = usizes(&case["start"]);
    let mut t = start_tensor(&start);
    let steps = case["steps"].as_array().unwrap();
    let mut key = format!("{:?}", start);
    for step in steps.iter() {
        key.push_str(&format!("|{}{}", str_of(step, "op"), step["to"]));
    }
    let id = format!("reshape:{}", key);
    let mut interesting = false;
    for (i, step) in steps.iter().enumerate() {
        let op = str_of(step, "op");
        let to = usizes(&step["to"]);
        let (outcome, after) = apply_reshape_step(&t, op, &to);
        rep.checks += 1;
        let want = str_of(step, "outcome");
        if outcome != want {
            rep.mismatch(
                "C14",
                if want == "panic" { "reshape_not_refused" } else { "reshape_refused" },
                &id,
                json!({"step": i, "expected": want, "observed": outcome, "from": shape_dims(&t.shape), "to": to}),
                case,
            );
            return;
        }
        if outcome == "panic" {
            interesting = true;
        }
        if outcome == "ok" {
            let want_shape = usizes(&step["shape"]);
            if shape_dims(&after.shape) != want_shape
                || data_dims(&after.data) != want_shape
                || !data_regular(&after.data)
            {
                rep.mismatch(
                    "C14",
                    "shape",
                    &id,
                    json!({"step": i, "expected": want_shape, "observed_shape": shape_dims(&after.shape), "observed_data_dims": data_dims(&after.data)}),
                    case,
                );
                return;
            }
            let want_flat = vec1(&step["flat"]);
            // Row-major sequence, both through our own traversal and through the public `get_flat`.
            if let Some(d) = diff_flat_exact(&flat(&after), &want_flat) {
                rep.mismatch("C14", "row_major", &id, json!({"step": i, "diff": d}), case);
                return;
            }
            match guarded(|| after.get_flat()) {
                Ok(gf) => {
                    if let Some(d) = diff_flat_exact(&gf, &want_flat) {
                        rep.mismatch("C14", "get_flat", &id, json!({"step": i, "diff": d}), case);
                        return;
                    }
                }
                Err(e) => {
                    rep.mismatch("C14", "get_flat_panic", &id, json!({"step": i, "panic": e}), case);
                    return;
                }
            }
            if want_shape != shape_dims(&t.shape) {
                interesting = true;
            }
            t = after;
        }
    }
    if interesting {
        rep.nontrivial(key);
    }
}

/// Randomized driver: reshape/flatten sequences on shapes larger than TLC enumerates.
/// Every operation is logged with its observed outcome and the full (small) abstract state.
pub fn record_reshape(seed: u64, tier: &str, trace: &mut Vec<Value>, rep: &mut Report) {
    let mut rng = Rng::new(seed ^ 0xC14);
    let runs = if tier == "thorough" { 400 } else { 60 };
    let max_dim = 6i64;
    for run in 0..runs {
        let mut shape: Vec<usize> = if rng.below(3) == 0 {
            vec![rng.range(1, 48) as usize]
        } else {
            (0..3).map(|_| rng.range(1, max_dim) as usize).collect()
        };
        while shape.iter().product::<usize>() > 60 {
            let i = rng.below(shape.len() as u64) as usize;
            shape[i] = (shape[i] + 1) / 2;
        }
        let mut t = start_tensor(&shape);
        trace.push(json!({"event": "Reset", "run": run, "shape": shape}));
        for _ in 0..rng.range(2, 6) {
            let n: usize = shape_dims(&t.shape).iter().product();
            let (op, to): (&str, Vec<usize>) = match rng.below(10) {
                0 => ("flatten", vec![]),
                1..=2 => (
                    "reshape",
                    vec![if rng.below(2) == 0 { n } else { rng.range(1, 60) as usize }],
                ),
                3..=6 => {
                    // a factorisation of n (equal count)
                    let mut c = rng.range(1, max_dim) as usize;
                    while n % c != 0 {
                        c -= 1;
                    }
                    let m = n / c;
                    let mut h = rng.range(1, m.min(12) as i64) as usize;
                    while m % h != 0 {
                        h -= 1;
                    }
                    ("reshape", vec![c, h, m / h])
                }
                _ => ("reshape", (0..3).map(|_| rng.range(1, max_dim) as usize).collect()),
            };
            let (outcome, after) = apply_reshape_step(&t, op, &to);
            rep.checks += 1;
            trace.push(json!({
                "event": if op == "flatten" { "Flatten" } else { "Reshape" },
                "to": to,
                "outcome": outcome,
                "shape": shape_dims(&after.shape),
                "dims": data_dims(&after.data),
                "flat": flat(&after).iter().map(|x| *x as i64).collect::<Vec<i64>>(),
            }));
            t = after;
        }
        rep.cases += 1;
    }
}
