//! Groups "reshape" (C14) and "arith" (C15): replay of specification behaviours on real tensors,
//! and randomized drivers recording traces for validation against the specification.

use crate::util::*;
use neurons::tensor::{Shape, Tensor};
use serde_json::{json, Value};

/// Build a 3-D tensor directly (not through `reshape`, which is under test).
pub fn triple_rowmajor(shape: &[usize], flat: &[f32]) -> Tensor {
    let (c, h, w) = (shape[0], shape[1], shape[2]);
    let mut it = flat.iter();
    Tensor::triple(
        (0..c)
            .map(|_| (0..h).map(|_| (0..w).map(|_| *it.next().unwrap()).collect()).collect())
            .collect(),
    )
}

fn start_tensor(shape: &[usize]) -> Tensor {
    let n: usize = shape.iter().product();
    let flat: Vec<f32> = (1..=n).map(|i| i as f32).collect();
    if shape.len() == 1 {
        Tensor::single(flat)
    } else {
        triple_rowmajor(shape, &flat)
    }
}

/// Apply one step of a reshape behaviour; returns (outcome, tensor after).
pub fn apply_reshape_step(t: &Tensor, op: &str, to: &[usize]) -> (String, Tensor) {
    let input = t.clone();
    let result = match op {
        "reshape" => {
            let shape = match to.len() {
                1 => Shape::Single(to[0]),
                3 => Shape::Triple(to[0], to[1], to[2]),
                _ => panic!("harness: reshape target rank"),
            };
            guarded(move || input.reshape(shape))
        }
        "flatten" => guarded(move || input.flatten()),
        _ => panic!("harness: unknown reshape op {}", op),
    };
    match result {
        Ok(t2) => ("ok".to_string(), t2),
        Err(_) => ("panic".to_string(), t.clone()),
    }
}

/// "All contents": element identity i carried by a float that is awkward to compare or to copy
/// (NaN, infinities, zeros of both signs, a subnormal, the largest finite value).
fn special_content(i: usize) -> f32 {
    const PALETTE: [f32; 8] = [f32::NAN, f32::INFINITY, f32::NEG_INFINITY, -0.0, 0.0, 1.0e-40, f32::MAX, -1.5];
    PALETTE[i % 8]
}

/// The same behaviour once more on special contents: outcomes as before, positions preserved bit for bit.
fn replay_reshape_special(case: &Value, rep: &mut Report, id: &str) {
    let start = usizes(&case["start"]);
    let n: usize = start.iter().product();
    let content: Vec<f32> = (1..=n).map(special_content).collect();
    let mut t = if start.len() == 1 { Tensor::single(content.clone()) } else { triple_rowmajor(&start, &content) };
    for (i, step) in case["steps"].as_array().unwrap().iter().enumerate() {
        let op = str_of(step, "op");
        let to = usizes(&step["to"]);
        let (outcome, after) = apply_reshape_step(&t, op, &to);
        rep.checks += 1;
        if outcome != str_of(step, "outcome") {
            rep.mismatch("C14", "outcome_depends_on_contents", id, json!({"step": i, "expected": step["outcome"], "observed": outcome, "to": to}), case);
            return;
        }
        if outcome == "ok" {
            let want: Vec<u32> = vec1(&step["flat"]).iter().map(|e| special_content(*e as usize).to_bits()).collect();
            let got: Vec<u32> = flat(&after).iter().map(|x| x.to_bits()).collect();
            if got != want || shape_dims(&after.shape) != usizes(&step["shape"]) {
                rep.mismatch("C14", "row_major_special_contents", id, json!({"step": i, "to": to}), case);
                return;
            }
            t = after;
        }
    }
}

pub fn replay_reshape(case: &Value, rep: &mut Report) {
    let start = usizes(&case["start"]);
    let mut t = start_tensor(&start);
    let steps = case["steps"].as_array().unwrap();
    let mut key = format!("{:?}", start);
    for step in steps.iter() {
        key.push_str(&format!("|{}{}", str_of(step, "op"), step["to"]));
    }
    let id = format!("reshape:{}", key);
    let mut interesting = false;
    for (i, step) in steps.iter().enumerate() {
        let op = str_of(step, "op");
        let to = usizes(&step["to"]);
        let (outcome, after) = apply_reshape_step(&t, op, &to);
        rep.checks += 1;
        let want = str_of(step, "outcome");
        if outcome != want {
            rep.mismatch(
                "C14",
                if want == "panic" { "reshape_not_refused" } else { "reshape_refused" },
                &id,
                json!({"step": i, "expected": want, "observed": outcome, "from": shape_dims(&t.shape), "to": to}),
                case,
            );
            return;
        }
        if outcome == "panic" {
            interesting = true;
        }
        if outcome == "ok" {
            let want_shape = usizes(&step["shape"]);
            if shape_dims(&after.shape) != want_shape
                || data_dims(&after.data) != want_shape
                || !data_regular(&after.data)
            {
                rep.mismatch(
                    "C14",
                    "shape",
                    &id,
                    json!({"step": i, "expected": want_shape, "observed_shape": shape_dims(&after.shape), "observed_data_dims": data_dims(&after.data)}),
                    case,
                );
                // C08, last clause: the flat <-> spatial transitions are these very operations (row-major flatten / reshape)
                rep.mismatch("C08", "flat_spatial_transition_changes_the_shape", &id, json!({"step": i, "expected": want_shape, "observed_data_dims": data_dims(&after.data)}), case);
                return;
            }
            let want_flat = vec1(&step["flat"]);
            // Row-major sequence, both through our own traversal and through the public `get_flat`.
            if let Some(d) = diff_flat_exact(&flat(&after), &want_flat) {
                rep.mismatch("C14", "row_major", &id, json!({"step": i, "diff": d}), case);
                rep.mismatch("C08", "flat_spatial_transition_loses_row_major_order", &id, json!({"step": i, "diff": d}), case);
                return;
            }
            match guarded(|| after.get_flat()) {
                Ok(gf) => {
                    if let Some(d) = diff_flat_exact(&gf, &want_flat) {
                        rep.mismatch("C14", "get_flat", &id, json!({"step": i, "diff": d}), case);
                        return;
                    }
                }
                Err(e) => {
                    rep.mismatch("C14", "get_flat_panic", &id, json!({"step": i, "panic": e}), case);
                    return;
                }
            }
            // every 3-D reading the specification lists: dimensions as requested, regular, row-major
            for view in step["views"].as_array().map(|a| a.as_slice()).unwrap_or(&[]) {
                let dims = usizes(view);
                rep.checks += 1;
                match guarded(|| after.get_triple(&Shape::Triple(dims[0], dims[1], dims[2]))) {
                    Ok(v) => {
                        let vt = Tensor::triple(v);
                        if data_dims(&vt.data) != dims || !data_regular(&vt.data) {
                            rep.mismatch("C14", "get_triple_shape", &id, json!({"step": i, "requested": dims, "observed": data_dims(&vt.data)}), case);
                            return;
                        }
                        if let Some(d) = diff_flat_exact(&flat(&vt), &want_flat) {
                            rep.mismatch("C14", "get_triple_not_row_major", &id, json!({"step": i, "requested": dims, "diff": d}), case);
                            return;
                        }
                    }
                    Err(e) => {
                        rep.mismatch("C14", "get_triple_panic", &id, json!({"step": i, "requested": dims, "panic": e}), case);
                        return;
                    }
                }
            }
            if want_shape != shape_dims(&t.shape) {
                interesting = true;
            }
            t = after;
        }
    }
    replay_reshape_special(case, rep, &id);
    if interesting {
        rep.nontrivial(key);
    }
}

/// Randomized driver: reshape/flatten sequences on shapes larger than TLC enumerates.
/// Every operation is logged with its observed outcome and the full (small) abstract state.
/// Element counts beyond 2^24 (where a count is no longer exact in single precision): the reshape rule is still
/// "accepted iff the counts are equal" (ReshapeDefined), checked directly -- such tensors are not logged.
fn big_reshape_checks(rep: &mut Report) {
    let n: usize = (1 << 24) + 1;
    for (len, target, want_ok) in [(n, [1usize, 4096, 4096], false), (n - 1, [1, 4096, 4096], true), (n, [4, 2048, 2048], false)] {
        rep.checks += 1;
        let mut v = vec![0.0f32; len];
        v[len - 1] = 7.0;
        let t = Tensor::single(v);
        let got = guarded(move || t.reshape(Shape::Triple(target[0], target[1], target[2])));
        match (got, want_ok) {
            (Ok(r), false) => rep.mismatch("C14", "reshape_not_refused", "reshape:big", json!({"elements": len, "to": target, "result_elements": flat(&r).len()}), &json!({"elements": len, "to": target})),
            (Err(e), true) => rep.mismatch("C14", "reshape_refused", "reshape:big", json!({"elements": len, "to": target, "panic": e}), &json!({"elements": len, "to": target})),
            (Ok(r), true) => {
                let f = flat(&r);
                if f.len() != len || f[len - 1] != 7.0 || shape_dims(&r.shape) != target.to_vec() {
                    rep.mismatch("C14", "row_major", "reshape:big", json!({"elements": len, "to": target}), &json!({"elements": len, "to": target}));
                }
            }
            (Err(_), false) => (),
        }
    }
}

pub fn record_reshape(seed: u64, tier: &str, trace: &mut Vec<Value>, rep: &mut Report) {
    big_reshape_checks(rep);
    let mut rng = Rng::new(seed ^ 0xC14);
    let runs = if tier == "thorough" { 400 } else { 60 };
    let max_dim = 6i64;
    for run in 0..runs {
        let mut shape: Vec<usize> = if rng.below(3) == 0 {
            vec![rng.range(1, 48) as usize]
        } else {
            (0..3).map(|_| rng.range(1, max_dim) as usize).collect()
        };
        while shape.iter().product::<usize>() > 60 {
            let i = rng.below(shape.len() as u64) as usize;
            shape[i] = (shape[i] + 1) / 2;
        }
        // the first runs: tensors of several thousand elements (non-square planes, a single long row), far beyond the
        // sizes any size-gated fast path would leave alone
        const BIG: [[usize; 3]; 4] = [[3, 32, 48], [2, 60, 40], [2, 1, 2500], [1, 70, 64]];
        let big = run < BIG.len();
        if big {
            shape = BIG[run].to_vec();
        }
        let mut t = start_tensor(&shape);
        trace.push(json!({"event": "Reset", "run": run, "shape": shape}));
        // every fifth run: other library activity first (or, for `concurrent_learn`, during the whole run)
        let mut _background = None;
        if run % 5 == 1 {
            let kind = crate::disturb::KINDS[(run / 5) % crate::disturb::KINDS.len()];
            if kind == "concurrent_learn" {
                _background = Some(crate::disturb::Background::start());
                rep.count("other_activity_as_meant", 1);
            } else if crate::disturb::run(kind) {
                rep.count("other_activity_as_meant", 1);
            } else {
                rep.count(&format!("other_activity_not_as_meant_{}", kind), 1);
            }
            trace.push(crate::disturb::event(kind));
        }
        for _ in 0..rng.range(2, 6) {
            let n: usize = shape_dims(&t.shape).iter().product();
            let (op, to): (&str, Vec<usize>) = match if big { rng.below(7) } else { rng.below(10) } {
                0 => ("flatten", vec![]),
                1..=2 => (
                    "reshape",
                    vec![if big || rng.below(2) == 0 { n } else { rng.range(1, 60) as usize }],
                ),
                3..=6 => {
                    // a factorisation of n (equal count)
                    let mut c = rng.range(1, max_dim) as usize;
                    while n % c != 0 {
                        c -= 1;
                    }
                    let m = n / c;
                    let mut h = rng.range(1, m.min(if big { 90 } else { 12 }) as i64) as usize;
                    while m % h != 0 {
                        h -= 1;
                    }
                    ("reshape", vec![c, h, m / h])
                }
                _ => ("reshape", (0..3).map(|_| rng.range(1, max_dim) as usize).collect()),
            };
            let (outcome, after) = apply_reshape_step(&t, op, &to);
            rep.checks += 1;
            trace.push(json!({
                "event": if op == "flatten" { "Flatten" } else { "Reshape" },
                "to": to,
                "outcome": outcome,
                "shape": shape_dims(&after.shape),
                "dims": data_dims(&after.data),
                "flat": flat(&after).iter().map(|x| *x as i64).collect::<Vec<i64>>(),
            }));
            t = after;
        }
        rep.cases += 1;
    }
}

// ------------------------------------------------------------------------------------------------
// Group "arith" (C15)
// ------------------------------------------------------------------------------------------------

/// Tensor from the specification's record: {"rank": r, "data": nested} or {"rank": 0, "parts": [...]}.
pub fn spec_tensor(v: &Value) -> Tensor {
    if v["rank"].as_i64() == Some(-1) {
        // list with optional entries; an absent entry is {"rank": -2}
        Tensor::nestedoptional(
            v["parts"].as_array().unwrap().iter().map(|p| if p["rank"].as_i64() == Some(-2) { None } else { Some(spec_tensor(p)) }).collect(),
        )
    } else if v["rank"].as_u64() == Some(0) {
        Tensor::nested(v["parts"].as_array().unwrap().iter().map(spec_tensor).collect())
    } else {
        tensor_from(&v["data"])
    }
}

fn diff_spec_tensor(t: &Tensor, want: &Value) -> Option<String> {
    if want["rank"].as_i64() == Some(-1) {
        let parts = match &t.data {
            neurons::tensor::Data::NestedOptional(p) => p,
            _ => return Some("expected a list with optional entries".to_string()),
        };
        let wparts = want["parts"].as_array().unwrap();
        if parts.len() != wparts.len() || shape_dims(&t.shape) != vec![wparts.len()] {
            return Some("nested length".to_string());
        }
        for (k, (p, w)) in parts.iter().zip(wparts.iter()).enumerate() {
            match (p, w["rank"].as_i64() == Some(-2)) {
                (None, true) => (),
                (Some(p), false) => {
                    if let Some(d) = diff_spec_tensor(p, w) {
                        return Some(format!("entry {}: {}", k, d));
                    }
                }
                _ => return Some(format!("entry {}: presence differs", k)),
            }
        }
        None
    } else if want["rank"].as_u64() == Some(0) {
        let parts = match &t.data {
            neurons::tensor::Data::Nested(p) => p,
            _ => return Some("expected a nested tensor".to_string()),
        };
        let wparts = want["parts"].as_array().unwrap();
        if parts.len() != wparts.len() || shape_dims(&t.shape) != vec![wparts.len()] {
            return Some("nested length".to_string());
        }
        for (p, w) in parts.iter().zip(wparts.iter()) {
            if let Some(d) = diff_spec_tensor(p, w) {
                return Some(d);
            }
        }
        None
    } else {
        diff_exact(t, &want["data"])
    }
}

fn same_shape_random(t: &Tensor, rng: &mut Rng) -> Tensor {
    same_shape_filled(t, rng, None)
}

/// `uniform`: every element of the tensor is that one constant (all operands -0.0, all operands near the largest finite
/// value, ...: the positions where a shortcut in an accumulation shows).
fn same_shape_filled(t: &Tensor, rng: &mut Rng, uniform: Option<f32>) -> Tensor {
    use neurons::tensor::Data;
    let mut r = t.clone();
    if let Some(c) = uniform {
        fn set(d: &mut Data, c: f32) {
            match d {
                Data::Single(a) => a.iter_mut().for_each(|x| *x = c),
                Data::Double(a) => a.iter_mut().flatten().for_each(|x| *x = c),
                Data::Triple(a) => a.iter_mut().flatten().flatten().for_each(|x| *x = c),
                Data::Quadruple(a) => a.iter_mut().flatten().flatten().flatten().for_each(|x| *x = c),
                Data::Nested(ts) => ts.iter_mut().for_each(|t| set(&mut t.data, c)),
                _ => (),
            }
        }
        set(&mut r.data, c);
        return r;
    }
    fn fill(d: &mut Data, rng: &mut Rng) {
        // ordinary magnitudes, and now and then a finite value that is awkward: zeros of both signs, subnormals, values
        // whose sum or product overflows ("all finite contents")
        const AWKWARD: [f32; 10] = [0.0, -0.0, 1.0e-40, -1.0e-40, 3.0e38, -3.0e38, 1.0e-30, -7.0e-25, 16777217.0, 0.1];
        let mut f = |x: &mut f32| {
            *x = if rng.below(9) == 0 { AWKWARD[rng.below(10) as usize] } else { (rng.unit() - 0.5) * 8.0 + if rng.below(7) == 0 { 1.0e-3 } else { 0.0 } }
        };
        match d {
            Data::Single(a) => a.iter_mut().for_each(&mut f),
            Data::Double(a) => a.iter_mut().flatten().for_each(&mut f),
            Data::Triple(a) => a.iter_mut().flatten().flatten().for_each(&mut f),
            Data::Quadruple(a) => a.iter_mut().flatten().flatten().flatten().for_each(&mut f),
            Data::Nested(ts) => ts.iter_mut().for_each(|t| fill(&mut t.data, rng)),
            _ => (),
        }
    }
    fill(&mut r.data, rng);
    r
}

/// Apply one arithmetic step to `acc`; returns Ok(result) or Err(panic message).
fn apply_arith(acc: &Tensor, op: &str, arg: &[Tensor], extra: &Value) -> Result<Tensor, String> {
    let mut x = acc.clone();
    guarded(move || {
        match op {
            "add" => x.add_inplace(&arg[0]),
            "sub" => x.sub_inplace(&arg[0]),
            "mul" => x.mul_inplace(&arg[0]),
            "hadamard" => x.hadamard(&arg[0], extra.as_i64().unwrap() as f32),
            "div" => x.div_scalar_inplace(num(extra)),
            "mean" => x.mean_inplace(&arg.iter().collect()),
            "clamp" => x = x.clamp(extra[0].as_i64().unwrap() as f32, extra[1].as_i64().unwrap() as f32),
            // bounded on one side: the other bound is infinite
            "clamp1" => {
                let b = extra["bound"].as_i64().unwrap() as f32;
                x = if extra["side"] == "upper" { x.clamp(f32::NEG_INFINITY, b) } else { x.clamp(b, f32::INFINITY) }
            }
            "transpose" => x = x.transpose(),
            "dot" => x = x.dot(&arg[0]),
            "product" => x = x.product(&arg[0]),
            _ => panic!("harness: unknown arith op {}", op),
        }
        x
    })
}

/// The IEEE single-precision element function of each operation (float mode).
fn native(op: &str, a: f32, bs: &[f32], extra: &Value) -> f32 {
    match op {
        "add" => a + bs[0],
        "sub" => a - bs[0],
        "mul" => a * bs[0],
        "hadamard" => a * bs[0] * extra.as_i64().unwrap() as f32,
        "div" => a / num(extra),
        // (the sum of the OTHER operands is folded from its first term: no additive identity enters, so the sign of an
        // all-zero sum is the operands')
        "mean" => (a + bs[1..].iter().fold(bs[0], |s, b| s + b)) / (bs.len() + 1) as f32,
        "clamp" => a.clamp(extra[0].as_i64().unwrap() as f32, extra[1].as_i64().unwrap() as f32),
        _ => unreachable!(),
    }
}

pub fn replay_arith(case: &Value, rep: &mut Report, rng: &mut Rng) {
    let mut acc = spec_tensor(&case["start"]);
    let steps = case["steps"].as_array().unwrap();
    let mut key = format!("{}", case["start"]);
    for s in steps {
        key.push_str(&format!("|{}:{}:{}", str_of(s, "op"), s["arg"], s["extra"]));
    }
    let id = format!("arith:{}", &key[..key.len().min(200)]);
    let mut interesting = false;
    for (i, step) in steps.iter().enumerate() {
        let op = str_of(step, "op");
        let args: Vec<Tensor> = match op {
            "mean" => step["arg"].as_array().unwrap().iter().map(spec_tensor).collect(),
            "div" | "clamp" | "clamp1" | "transpose" => vec![],
            _ => vec![spec_tensor(&step["arg"])],
        };
        let want = str_of(step, "outcome");
        let got = apply_arith(&acc, op, &args, &step["extra"]);
        rep.checks += 1;
        match (&got, want) {
            (Ok(_), "panic") => {
                rep.mismatch("C15", "mismatch_not_refused", &id, json!({"step": i, "op": op}), case);
                return;
            }
            (Err(e), "ok") => {
                rep.mismatch("C15", "unexpected_panic", &id, json!({"step": i, "op": op, "panic": e}), case);
                return;
            }
            _ => (),
        }
        if let Ok(result) = got {
            if let Some(d) = diff_spec_tensor(&result, &step["result"]) {
                rep.mismatch("C15", "value", &id, json!({"step": i, "op": op, "diff": d}), case);
                return;
            }
            interesting = true;
            // Float mode: same operation and shapes, harness-chosen floats, every element one IEEE operation.
            // (not for lists with optional entries: their element positions depend on the presence patterns)
            if matches!(op, "add" | "sub" | "mul" | "hadamard" | "div" | "mean" | "clamp") && !matches!(acc.data, neurons::tensor::Data::NestedOptional(_)) {
                // (twice: seeded contents, then every operand filled with ONE awkward constant)
                const UNIFORM: [f32; 6] = [-0.0, 0.0, 3.0e38, -3.0e38, 1.0e-40, 16777217.0];
                let constant = UNIFORM[rng.below(6) as usize];
                for uniform in [None, Some(constant)] {
                let fa = same_shape_filled(&acc, rng, uniform);
                let fargs: Vec<Tensor> = args.iter().map(|t| same_shape_filled(t, rng, uniform)).collect();
                match apply_arith(&fa, op, &fargs, &step["extra"]) {
                    Ok(fr) => {
                        let a = flat(&fa);
                        let bs: Vec<Vec<f32>> = fargs.iter().map(flat).collect();
                        let want: Vec<f32> = (0..a.len())
                            .map(|k| native(op, a[k], &bs.iter().map(|b| b[k]).collect::<Vec<f32>>(), &step["extra"]))
                            .collect();
                        rep.checks += 1;
                        // bit for bit (the sign of a zero included)
                        let got = flat(&fr);
                        // (the mean over three or more tensors is a sum of more than two terms: its order is not prescribed, so it is
                        // compared within a rounding bound; everything else is a single IEEE operation per element)
                        let several = op == "mean" && bs.len() >= 2;
                        // (a sum of three or more terms may be taken in any order: the orders differ by at most a few ulps of the SUM
                        // OF THE MAGNITUDES -- not of the result, which cancellation can make arbitrarily small)
                        let magnitudes: Vec<f64> = (0..a.len()).map(|k| (a[k].abs() as f64 + bs.iter().map(|b| b[k].abs() as f64).sum::<f64>()) / (bs.len() + 1) as f64).collect();
                        let agree_at = |k: usize, g: f32, w: f32| {
                            let within_magnitudes = several && ((g as f64 - w as f64).abs() <= 4.0 * f32::EPSILON as f64 * magnitudes[k] * (bs.len() + 1) as f64);
                            if several && uniform.map(|c| c == 0.0).unwrap_or(false) {
                                // zeros of one sign only: whatever the order of the additions, the IEEE sum keeps that sign
                                g.to_bits() == w.to_bits()
                            } else if several {
                                (g.is_nan() && w.is_nan()) || g == w || (g - w).abs() <= 4.0 * f32::EPSILON * w.abs().max(f32::MIN_POSITIVE) || (!w.is_finite() || !g.is_finite()) || within_magnitudes
                            } else {
                                g.to_bits() == w.to_bits() || (g.is_nan() && w.is_nan())
                            }
                        };
                        let bad = if got.len() != want.len() { Some(0) } else { (0..got.len()).find(|k| !agree_at(*k, got[*k], want[*k])) };
                        if let Some(k) = bad {
                            rep.mismatch("C15", "float_value", &id, json!({"step": i, "op": op, "element": k, "observed": got.get(k).map(|v| format!("{:e}", v)), "expected": want.get(k).map(|v| format!("{:e}", v)),
                                                                            "operand": a.get(k).map(|v| format!("{:e}", v))}), case);
                            return;
                        }
                        if shape_dims(&fr.shape) != shape_dims(&fa.shape) {
                            rep.mismatch("C15", "float_shape", &id, json!({"step": i, "op": op}), case);
                            return;
                        }
                    }
                    Err(e) => {
                        rep.mismatch("C15", "float_panic", &id, json!({"step": i, "op": op, "panic": e}), case);
                        return;
                    }
                }
                }
            }
            // Float mode for the products: the outer product and the transpose are exact element by element; the
            // matrix-vector product is checked within a rounding bound (below).
            if matches!(op, "dot" | "product" | "transpose") {
                let fa = same_shape_random(&acc, rng);
                let fargs: Vec<Tensor> = args.iter().map(|t| same_shape_random(t, rng)).collect();
                if let Ok(fr) = apply_arith(&fa, op, &fargs, &step["extra"]) {
                    use neurons::tensor::Data;
                    // the matrix-vector product is a SUM: its definition does not fix the order or the rounding of the partial
                    // sums, so it is compared within a rounding bound of the sum of the magnitudes (a fused or pairwise
                    // summation is a correct implementation; C05 decides whether the result depends on the schedule)
                    if let ("dot", Data::Double(m)) = (op, &fa.data) {
                        let v = flat(&fargs[0]);
                        let got = flat(&fr);
                        rep.checks += 1;
                        for (r, row) in m.iter().enumerate() {
                            let exact: f64 = row.iter().zip(v.iter()).map(|(a, b)| *a as f64 * *b as f64).sum();
                            let mag: f64 = row.iter().zip(v.iter()).map(|(a, b)| (*a as f64 * *b as f64).abs()).sum();
                            let bound = 1e-6 * mag * (row.len() as f64).max(1.0) + 1e-40;
                            let g = got.get(r).copied().unwrap_or(f32::NAN) as f64;
                            if exact.is_finite() && mag < 1e37 && !((g - exact).abs() <= bound) {
                                rep.mismatch("C15", "float_value", &id, json!({"step": i, "op": op, "row": r, "observed": format!("{:e}", g), "expected": format!("{:e}", exact), "bound": format!("{:e}", bound)}), case);
                                return;
                            }
                        }
                    }
                    let want: Option<Vec<f32>> = match (op, &fa.data) {
                        ("product", Data::Single(a)) => {
                            let b = flat(&fargs[0]);
                            Some(a.iter().flat_map(|x| b.iter().map(move |y| x * y)).collect())
                        }
                        ("transpose", Data::Double(m)) => {
                            let (r, c) = (m.len(), m.first().map(|x| x.len()).unwrap_or(0));
                            Some((0..c).flat_map(|j| (0..r).map(move |i| (i, j))).map(|(i, j)| m[i][j]).collect())
                        }
                        _ => None,
                    };
                    if let Some(want) = want {
                        let got = flat(&fr);
                        rep.checks += 1;
                        // (+0.0 and -0.0 compare equal here: the sum of an empty or all-zero row has no prescribed sign)
                        let bad = if got.len() != want.len() { Some(0) } else { (0..got.len()).find(|k| got[*k] != want[*k] && !(got[*k].is_nan() && want[*k].is_nan())) };
                        if let Some(k) = bad {
                            rep.mismatch("C15", "float_value", &id, json!({"step": i, "op": op, "element": k, "observed": got.get(k).map(|v| format!("{:e}", v)), "expected": want.get(k).map(|v| format!("{:e}", v))}), case);
                            return;
                        }
                    }
                }
            }
            acc = result;
        } else {
            interesting = true;
        }
    }
    if interesting {
        rep.nontrivial(key);
    }
}

fn int_tensor(rank: usize, dims: &[usize], rng: &mut Rng) -> Tensor {
    let n: usize = dims.iter().product();
    let v: Vec<f32> = (0..n).map(|_| rng.range(-4, 4) as f32).collect();
    let mut it = v.into_iter();
    match rank {
        1 => Tensor::single((0..dims[0]).map(|_| it.next().unwrap()).collect()),
        2 => Tensor::double((0..dims[0]).map(|_| (0..dims[1]).map(|_| it.next().unwrap()).collect()).collect()),
        3 => Tensor::triple(
            (0..dims[0])
                .map(|_| (0..dims[1]).map(|_| (0..dims[2]).map(|_| it.next().unwrap()).collect()).collect())
                .collect(),
        ),
        _ => Tensor::quadruple(
            (0..dims[0])
                .map(|_| {
                    (0..dims[1])
                        .map(|_| (0..dims[2]).map(|_| (0..dims[3]).map(|_| it.next().unwrap()).collect()).collect())
                        .collect()
                })
                .collect(),
        ),
    }
}

fn spec_json(t: &Tensor) -> Value {
    match &t.data {
        neurons::tensor::Data::Nested(parts) => json!({"rank": 0, "parts": parts.iter().map(spec_json).collect::<Vec<_>>()}),
        _ => {
            let ints = |v: Value| -> Value {
                fn conv(v: &Value) -> Value {
                    match v.as_array() {
                        Some(a) => Value::Array(a.iter().map(conv).collect()),
                        None => json!(v.as_f64().unwrap() as i64),
                    }
                }
                conv(&v)
            };
            json!({"rank": data_dims(&t.data).len(), "data": ints(tensor_json(t))})
        }
    }
}

/// Randomized driver (integer data, larger shapes, longer operation sequences than TLC enumerates).
pub fn record_arith(seed: u64, tier: &str, trace: &mut Vec<Value>, rep: &mut Report) {
    let mut rng = Rng::new(seed ^ 0xC15);
    let runs = if tier == "thorough" { 600 } else { 150 };
    for run in 0..runs {
        let rank = rng.range(1, 4) as usize;
        let dims: Vec<usize> = (0..rank).map(|_| rng.range(1, 4) as usize).collect();
        let mut acc = int_tensor(rank, &dims, &mut rng);
        trace.push(json!({"event": "Reset", "run": run, "tensor": spec_json(&acc)}));
        let mut _background = None;
        if run % 10 == 1 {
            let kind = crate::disturb::KINDS[(run / 10) % crate::disturb::KINDS.len()];
            if kind == "concurrent_learn" {
                _background = Some(crate::disturb::Background::start());
                rep.count("other_activity_as_meant", 1);
            } else if crate::disturb::run(kind) {
                rep.count("other_activity_as_meant", 1);
            } else {
                rep.count(&format!("other_activity_not_as_meant_{}", kind), 1);
            }
            trace.push(crate::disturb::event(kind));
        }
        for _ in 0..rng.range(1, 4) {
            let op = *rng.pick(&["add", "sub", "mul", "hadamard"]);
            let mismatch = rng.below(5) == 0;
            let mut odims = dims.clone();
            if mismatch {
                let k = rng.below(rank as u64) as usize;
                odims[k] += 1;
            }
            let other = int_tensor(rank, &odims, &mut rng);
            let extra = if op == "hadamard" { json!(*rng.pick(&[1i64, 2, -1, 3])) } else { json!(0) };
            // keep magnitudes small: skip multiplications once values are large
            let big = flat(&acc).iter().any(|x| x.abs() > 1.0e4);
            if big && (op == "mul" || op == "hadamard") {
                continue;
            }
            let got = apply_arith(&acc, op, std::slice::from_ref(&other), &extra);
            rep.checks += 1;
            let (outcome, after) = match got {
                Ok(t) => ("ok", t),
                Err(_) => ("panic", acc.clone()),
            };
            trace.push(json!({"event": "Binary", "op": op, "arg": spec_json(&other), "k": extra,
                              "outcome": outcome, "result": spec_json(&after)}));
            acc = after;
        }
        rep.cases += 1;
    }
}
