//! Group "net": builder behaviours and network-level forward/backward enumerated by MC_Net
//! (C08 announced = produced shapes and rejections, C02 composition, C01 network gradients),
//! and group "flow": skip / loop / feedback dataflow cases (C16, C17, C11, C10).

use crate::nets;
use crate::util::*;
use neurons::network::{Layer, Network};
use neurons::tensor::Tensor;
use neurons::verif;
use serde_json::{json, Value};

/// Builder-call description from the specification's (kind, hyper-parameter) pair.
pub fn desc_from_hp(kind: &str, hp: &Value) -> Value {
    let u = |k: &str| hp[k].as_u64().unwrap();
    match kind {
        "dense" => json!({"kind": "dense", "out": u("f"), "act": hp["act"], "bias": hp["bias"]}),
        "conv" => json!({"kind": "conv", "filters": u("f"), "kernel": [u("kh"), u("kw")], "stride": [u("sh"), u("sw")],
                         "padding": [u("ph"), u("pw")], "dilation": [u("dh"), u("dw")], "act": hp["act"]}),
        "deconv" => json!({"kind": "deconv", "filters": u("f"), "kernel": [u("kh"), u("kw")], "stride": [u("sh"), u("sw")],
                           "padding": [u("ph"), u("pw")], "act": hp["act"]}),
        "pool" => json!({"kind": "pool", "kernel": [u("kh"), u("kw")], "stride": [u("sh"), u("sw")]}),
        k => panic!("harness: unknown kind {}", k),
    }
}

fn parse_shape(s: &str) -> Vec<usize> {
    s.split('x').map(|p| p.trim().parse::<usize>().unwrap_or(usize::MAX)).collect()
}

/// Shapes announced by the network's Display output for layer `index`: (in, out).
pub fn announced(net: &Network, index: usize) -> Option<(Vec<usize>, Vec<usize>)> {
    let text = format!("{}", net);
    let header = format!("\t\t{}: ", index);
    let mut lines = text.lines();
    while let Some(line) = lines.next() {
        if line.starts_with(&header) {
            for l in lines.by_ref() {
                if let Some(pos) = l.find(" -> ") {
                    let a = l[..pos].trim();
                    let b = l[pos + 4..].trim();
                    return Some((parse_shape(a), parse_shape(b)));
                }
            }
        }
    }
    None
}

pub fn parameters_line(net: &Network) -> Option<usize> {
    let text = format!("{}", net);
    for l in text.lines() {
        if let Some(rest) = l.trim().strip_prefix("parameters: ") {
            return rest.trim().parse().ok();
        }
    }
    None
}

/// Tensor with denominator from the specification: {"shape":[..], "data": nested, "den": d}
pub fn spec_value_tensor(v: &Value) -> Tensor {
    let den = v["den"].as_i64().unwrap_or(1) as f32;
    let mut t = tensor_from(&v["data"]);
    if den != 1.0 {
        t.div_scalar_inplace(den);
    }
    t
}

fn is_pow2(d: i64) -> bool {
    d > 0 && (d & (d - 1)) == 0
}

/// Compare a real tensor with a specification value data/den: exact when den is a power of two
/// (all intermediate values are then dyadic and exact in f32), otherwise within 1e-5.
pub fn diff_spec_value(t: &Tensor, want: &Value) -> Option<String> {
    let want_dims = dims_json(&want["data"]);
    let got_dims = data_dims(&t.data);
    if want_dims != got_dims {
        return Some(format!("dimensions: expected {:?}, observed {:?}", want_dims, got_dims));
    }
    if shape_dims(&t.shape) != got_dims {
        return Some(format!("recorded shape {:?} does not match data dimensions {:?}", shape_dims(&t.shape), got_dims));
    }
    let den = want["den"].as_i64().unwrap_or(1);
    let mut nums = Vec::new();
    flat_json(&want["data"], &mut nums);
    let expect: Vec<f32> = nums.iter().map(|n| n / den as f32).collect();
    if is_pow2(den) {
        diff_flat_exact(&flat(t), &expect)
    } else {
        diff_flat_close(&flat(t), &expect, 1e-5)
    }
}

pub fn install_params(layer: &mut Layer, kind: &str, params: &Value, bias: bool) {
    match kind {
        "dense" => verif::set_layer(
            layer,
            verif::Params { kind: "dense", weights: Some(vec2(&params["W"])), bias: if bias { Some(vec1(&params["b"])) } else { None }, kernels: None },
        ),
        "conv" | "deconv" => verif::set_layer(
            layer,
            verif::Params { kind: "convolution", weights: None, bias: None, kernels: Some(vec4(&params["K"])) },
        ),
        _ => (),
    }
}

pub fn replay_net(case: &Value, rep: &mut Report) {
    let input = usizes(&case["input"]);
    let steps = case["steps"].as_array().unwrap();
    let mut key = format!("{:?}", input);
    for s in steps {
        key.push_str(&format!("|{}{}", str_of(s, "kind"), s["hp"]));
    }
    let id = format!("net:{}", key);
    let mut net = Network::new(shape_from(&case["input"]));
    let mut accepted = 0usize;
    for (i, step) in steps.iter().enumerate() {
        let kind = str_of(step, "kind");
        let desc = desc_from_hp(kind, &step["hp"]);
        let want = str_of(step, "outcome");
        rep.checks += 1;
        let got = guarded(|| nets::add_layer(&mut net, &desc));
        match (&got, want) {
            (Ok(()), "panic") => {
                let ann = announced(&net, net.layers.len() - 1);
                rep.mismatch(
                    "C08",
                    if kind != "dense" && net.layers.len() > 1 { "flat_size_not_rejected" } else { "invalid_layer_not_rejected" },
                    &id,
                    json!({"step": i, "kind": kind, "announced": ann.map(|a| json!({"in": a.0, "out": a.1}))}),
                    case,
                );
                return;
            }
            (Err(e), "ok") => {
                rep.mismatch("C08", "valid_layer_rejected", &id, json!({"step": i, "kind": kind, "panic": e}), case);
                return;
            }
            (Err(_), _) => {
                // the same refusal through the other entry points: a spatial layer on a flat size that is not a perfect
                // square must be refused by the stand-alone constructor and inside a feedback block as well
                let prev_flat = net.layers.last().map(|l| matches!(l, neurons::network::Layer::Dense(_))).unwrap_or(input.len() == 1);
                if kind != "dense" && prev_flat {
                    let n_flat: usize = if net.layers.is_empty() {
                        input.iter().product()
                    } else {
                        announced(&net, net.layers.len() - 1).map(|a| a.1.iter().product()).unwrap_or(0)
                    };
                    let root = (n_flat as f64).sqrt().round() as usize;
                    if n_flat > 0 && root * root != n_flat {
                        use neurons::tensor::Shape;
                        let hp = &step["hp"];
                        let u = |k: &str| hp[k].as_u64().unwrap() as usize;
                        let act = crate::layers::activation(hp["act"].as_str().unwrap_or("linear"));
                        rep.checks += 2;
                        let direct = guarded(|| match kind {
                            "conv" => {
                                neurons::convolution::Convolution::create(Shape::Single(n_flat), u("f"), &act, (u("kh"), u("kw")), (u("sh"), u("sw")), (u("ph"), u("pw")), (u("dh"), u("dw")), None);
                            }
                            "deconv" => {
                                neurons::deconvolution::Deconvolution::create(Shape::Single(n_flat), u("f"), &act, (u("kh"), u("kw")), (u("sh"), u("sw")), (u("ph"), u("pw")), None);
                            }
                            _ => {
                                neurons::maxpool::Maxpool::create(Shape::Single(n_flat), (u("kh"), u("kw")), (u("sh"), u("sw")));
                            }
                        });
                        // (C08 speaks of the layer being ADDED to a network: what the stand-alone constructor does with such a size
                        // is only counted, not judged)
                        if direct.is_ok() {
                            rep.count("stand_alone_constructor_accepts_non_square_flat_size", 1);
                        }
                        let in_block = guarded(|| {
                            let mut n2 = Network::new(Shape::Single(n_flat));
                            nets::add_layer(&mut n2, &json!({"kind": "feedback", "layers": [desc.clone()], "loops": 1, "inskips": false, "outskips": false, "acc": "mean"}));
                        });
                        if in_block.is_ok() {
                            rep.mismatch("C08", "flat_size_not_rejected_inside_feedback_block", &id, json!({"step": i, "kind": kind, "flat": n_flat}), case);
                        }
                    }
                }
                continue;
            }
            (Ok(()), _) => (),
        }
        // announced shapes
        let idx = net.layers.len() - 1;
        accepted += 1;
        match announced(&net, idx) {
            None => rep.mismatch("C08", "announced_shape_unreadable", &id, json!({"step": i}), case),
            Some((ain, aout)) => {
                if ain != usizes(&step["in"]) || aout != usizes(&step["out"]) {
                    rep.mismatch(
                        "C08",
                        "announced_shape",
                        &id,
                        json!({"step": i, "kind": kind, "expected": {"in": step["in"], "out": step["out"]}, "announced": {"in": ain, "out": aout}}),
                        case,
                    );
                    return;
                }
            }
        }
    }
    let layers = case["layers"].as_array().unwrap();
    if accepted != layers.len() || net.layers.len() != layers.len() {
        panic!("harness: layer count mismatch after builder replay");
    }
    let installed = guarded(|| {
        for (l, spec) in net.layers.iter_mut().zip(layers.iter()) {
            let kind = str_of(spec, "kind");
            install_params(l, kind, &spec["params"], spec["cfg"]["bias"].as_bool().unwrap_or(false));
        }
    });
    if let Err(e) = installed {
        // a parameter tensor of another shape than the specification's
        rep.mismatch("C08", "layer_built_with_other_shapes_than_the_size_formulas_give", &id, json!({"panic": e}), case);
        rep.mismatch("C02", "layer_built_with_other_shapes_than_the_size_formulas_give", &id, json!({"panic": e}), case);
        return;
    }
    rep.nontrivial(key);

    // the batched entry point is the same composition, once per input and in input order -- for every batch length
    // (one evaluation chunk holds 64 inputs; 70 and 130 inputs leave a partial chunk)
    if let Some(eval) = case["evals"].as_array().and_then(|a| a.first()) {
        let x = spec_value_tensor(&eval["x"]);
        for count in [1usize, 70, 130] {
            let xs: Vec<Tensor> = (0..count)
                .map(|k| {
                    let v: Vec<f32> = flat(&x).iter().map(|a| a + (k % 5) as f32).collect();
                    match &x.data {
                        neurons::tensor::Data::Single(_) => Tensor::single(v),
                        _ => crate::tensors::triple_rowmajor(&data_dims(&x.data), &v),
                    }
                })
                .collect();
            let refs: Vec<&Tensor> = xs.iter().collect();
            rep.checks += 1;
            if let Ok(batch) = guarded(|| net.predict_batch(&refs)) {
                let same = batch.len() == count && (0..count).all(|k| nets::tensor_bits(&batch[k]) == nets::tensor_bits(&net.predict(refs[k])));
                if !same {
                    rep.mismatch("C02", "predict_batch_is_not_predict_per_input", &id, json!({"inputs": count, "returned": batch.len()}), case);
                    break;
                }
            }
        }
    }
    for eval in case["evals"].as_array().unwrap() {
        let x = spec_value_tensor(&eval["x"]);
        rep.checks += 1;
        let fwd = guarded(|| net.forward(&x));
        let (pre, post, max, fbs) = match fwd {
            Ok(r) => r,
            Err(e) => {
                rep.mismatch("C08", "forward_panicked_on_announced_shapes", &id, json!({"panic": e}), case);
                rep.mismatch("C02", "network_forward_panicked", &id, json!({"panic": e}), case);
                return;
            }
        };
        let mut forward_ok = true;
        for (i, want) in eval["posts"].as_array().unwrap().iter().enumerate() {
            // post[0] is the input itself
            let got = &post[i + 1];
            if let Some(d) = diff_spec_value(got, want) {
                forward_ok = false;
                if d.contains("dimensions") || d.contains("recorded shape") {
                    rep.mismatch("C08", "produced_shape_differs_from_announced", &id, json!({"layer": i, "diff": d}), case);
                }
                rep.mismatch("C02", "network_forward_value", &id, json!({"layer": i, "diff": d}), case);
                break;
            }
            let wantpre = &eval["pres"][i];
            if !wantpre["shape"].as_array().map(|a| a.is_empty()).unwrap_or(true) {
                if let Some(d) = diff_spec_value(&pre[i], wantpre) {
                    forward_ok = false;
                    if d.contains("dimensions") || d.contains("recorded shape") {
                        rep.mismatch("C08", "produced_shape_differs_from_announced", &id, json!({"layer": i, "diff": d, "tensor": "pre"}), case);
                    }
                    rep.mismatch("C02", "network_forward_value", &id, json!({"layer": i, "diff": d, "tensor": "pre"}), case);
                    break;
                }
            }
        }
        let pred = net.predict(&x);
        if nets::tensor_bits(&pred) != nets::tensor_bits(post.last().unwrap()) {
            rep.mismatch("C02", "predict_is_not_last_activation", &id, json!({}), case);
        }
        if !bool_of(eval, "kinkfree") {
            rep.count("net_cases_with_kinks_or_ties_skipped_for_gradients", 1);
            continue;
        }
        if !forward_ok {
            rep.count("net_gradients_skipped_after_forward_mismatch", 1);
            continue;
        }
        let g = spec_value_tensor(&eval["g"]);
        rep.checks += 1;
        match guarded(|| net.verif_backward(g, &pre, &post, &max, fbs)) {
            Err(e) => rep.mismatch("C01", "network_backward_panicked", &id, json!({"panic": e}), case),
            Ok((wg, bg)) => {
                let n = layers.len();
                for (i, want) in eval["grads"].as_array().unwrap().iter().enumerate() {
                    let kind = str_of(&layers[i], "kind");
                    if kind == "pool" {
                        continue;
                    }
                    let got_w = &wg[n - 1 - i];
                    if let Some(d) = diff_exact(got_w, &want["dw"]) {
                        if d.contains("dimensions") || d.contains("recorded shape") {
                            rep.mismatch("C08", "gradient_shape_differs_from_parameter_shape", &id, json!({"layer": i, "diff": d}), case);
                        }
                        rep.mismatch("C01", "network_gradient_value", &id, json!({"layer": i, "kind": kind, "diff": d}), case);
                        break;
                    }
                    if layers[i]["cfg"]["bias"].as_bool().unwrap_or(false) {
                        match &bg[n - 1 - i] {
                            Some(b) => {
                                if let Some(d) = diff_exact(b, &want["db"]) {
                                    rep.mismatch("C01", "network_gradient_value", &id, json!({"layer": i, "kind": kind, "bias": true, "diff": d}), case);
                                    break;
                                }
                            }
                            None => {
                                rep.mismatch("C01", "network_gradient_value", &id, json!({"layer": i, "bias": "missing"}), case);
                                break;
                            }
                        }
                    }
                }
            }
        }
    }
}

// ------------------------------------------------------------------------------------------------
// Group "flow": skip connections (C16), loop connections (C17), feedback blocks (C11)
// ------------------------------------------------------------------------------------------------

/// Builder description from a Layers-style configuration record.
pub fn desc_from_cfg(kind: &str, cfg: &Value) -> Value {
    desc_from_hp(kind, cfg)
}

fn flow_layer_desc(l: &Value) -> Value {
    let kind = str_of(l, "kind");
    if kind == "fb" {
        let inner: Vec<Value> = l["inner"].as_array().unwrap().iter().map(|i| desc_from_cfg(str_of(i, "kind"), &i["cfg"])).collect();
        json!({"kind": "feedback", "layers": inner, "loops": l["loops"], "inskips": l["inskips"], "outskips": l["outskips"], "acc": l["acc"]})
    } else {
        desc_from_cfg(kind, &l["cfg"])
    }
}

fn install_flow_params(net: &mut Network, layers: &[Value]) {
    for (layer, spec) in net.layers.iter_mut().zip(layers.iter()) {
        let kind = str_of(spec, "kind");
        if kind == "fb" {
            let inner_specs = spec["inner"].as_array().unwrap();
            let period = inner_specs.len();
            for (j, inner) in verif::inner_layers_mut(layer).iter_mut().enumerate() {
                let s = &inner_specs[j % period];
                install_params(inner, str_of(s, "kind"), &s["params"], s["cfg"]["bias"].as_bool().unwrap_or(false));
            }
        } else {
            install_params(layer, kind, &spec["params"], spec["cfg"]["bias"].as_bool().unwrap_or(false));
        }
    }
}

fn build_flow_net(case: &Value, layers: &[Value]) -> Network {
    let mut net = Network::new(shape_from(&case["input"]));
    for l in layers {
        nets::add_layer(&mut net, &flow_layer_desc(l));
    }
    install_flow_params(&mut net, layers);
    net
}

/// C08, "consecutive layers always fit": a forward or backward pass of an ACCEPTED network that aborts on a shape
/// disagreement (an assertion over shapes, a dot product of unequal lengths) is a transition that does not fit.
fn shapes_did_not_fit(rep: &mut Report, panic: &str, id: &str, case: &Value) {
    if ["Single(", "Double(", "Triple(", "hape", "Invalid dot", "Invalid add", "Invalid sub", "Invalid mul"].iter().any(|m| panic.contains(m)) {
        rep.mismatch("C08", "accepted_network_aborts_on_a_shape_disagreement", id, json!({"panic": panic}), case);
    }
}

/// C11 in TRAINING mode: a block without skips whose layers carry dropout is still the L-fold application of its layer
/// sequence -- every repetition is the same layer in the same mode (the dropout mask is a fixed function of the element
/// count, so the composition is well defined).  Only for networks that start with the block.
fn training_mode_repetition(case: &Value, layers: &[Value], x: &Tensor, rep: &mut Report, id: &str) {
    let first = &layers[0];
    if str_of(first, "kind") != "fb" || bool_of(first, "inskips") || bool_of(first, "outskips") || usize_of(first, "loops") < 2 {
        return;
    }
    let loops = usize_of(first, "loops");
    let build = |l: usize| -> Result<Network, String> {
        guarded(|| {
            let mut net = Network::new(shape_from(&case["input"]));
            for (k, spec) in layers.iter().enumerate() {
                let mut d = flow_layer_desc(spec);
                if k == 0 {
                    d["loops"] = json!(l);
                    for inner in d["layers"].as_array_mut().unwrap().iter_mut() {
                        if inner["kind"] != "pool" {
                            inner["dropout"] = json!(0.5);
                        }
                    }
                }
                nets::add_layer(&mut net, &d);
            }
            install_flow_params(&mut net, layers);
            net
        })
    };
    let (mut full, mut single) = match (build(loops), build(1)) {
        (Ok(a), Ok(b)) => (a, b),
        _ => return,
    };
    rep.checks += 1;
    let res = guarded(|| {
        let (bl, b1) = match (&mut full.layers[0], &mut single.layers[0]) {
            (neurons::network::Layer::Feedback(a), neurons::network::Layer::Feedback(b)) => (a, b),
            _ => panic!("harness: not a block"),
        };
        bl.training(true);
        b1.training(true);
        let y = bl.forward(x).1;
        let mut z = x.clone();
        for _ in 0..loops {
            z = b1.forward(&z).1;
        }
        (flat(&y), flat(&z))
    });
    if let Ok((y, z)) = res {
        rep.count("training_mode_repetition_checks", 1);
        if y.len() != z.len() || y.iter().zip(z.iter()).any(|(a, b)| a.to_bits() != b.to_bits()) {
            rep.mismatch("C11", "training_mode_block_is_not_the_repeated_layer_sequence", id, json!({"loops": loops, "block": y, "composition": z}), case);
        }
    }
}

pub fn replay_flow(case: &Value, rep: &mut Report) {
    let mode = str_of(case, "mode");
    let prop = match mode {
        "skip" => "C16",
        "loop" => "C17",
        _ => "C11",
    };
    let layers: Vec<Value> = case["layers"].as_array().unwrap().clone();
    let id = format!("flow:{}:{}:{}", mode, case["cfg"], case["steps"]);
    rep.checks += 1;
    let mut net = match guarded(|| build_flow_net(case, &layers)) {
        Ok(n) => n,
        Err(e) => {
            rep.mismatch(prop, "network_rejected_by_builder", &id, json!({"panic": e}), case);
            if mode == "fb" {
                rep.mismatch("C08", "valid_block_rejected_by_builder", &id, json!({"panic": e}), case);
            }
            return;
        }
    };
    rep.nontrivial(id.clone());
    // C08 inside feedback blocks: the (in -> out) shapes the block prints for its unrolled layers are those of the size
    // formulas for the configuration the caller wrote
    if mode == "fb" {
        let text = format!("{}", net);
        let mut printed: Vec<Vec<(Vec<usize>, Vec<usize>)>> = Vec::new();
        for line in text.lines() {
            if line.trim_start().starts_with("Feedback (") || line.contains(": Feedback (") {
                printed.push(Vec::new());
            } else if line.starts_with("\t\t\t\t") && line.contains(" -> ") && line.trim_end().ends_with(')') {
                if let (Some(open), Some(block)) = (line.rfind('('), printed.last_mut()) {
                    let inner = &line[open + 1..line.trim_end().len() - 1];
                    if let Some(pos) = inner.find(" -> ") {
                        block.push((parse_shape(inner[..pos].trim()), parse_shape(inner[pos + 4..].trim())));
                    }
                }
            }
        }
        let blocks: Vec<&Value> = layers.iter().filter(|l| str_of(l, "kind") == "fb").collect();
        if printed.len() == blocks.len() {
            for (b, l) in blocks.iter().enumerate() {
                let inner = l["inner"].as_array().unwrap();
                for (j, (pin, pout)) in printed[b].iter().enumerate() {
                    let want = &inner[j % inner.len()];
                    let (win, wout) = (usizes(&want["in"]), usizes(&want["out"]));
                    rep.checks += 1;
                    if *pin != win || *pout != wout {
                        rep.mismatch("C08", "announced_shape_inside_feedback_block", &id, json!({"block": b, "unrolled_layer": j, "announced": [pin, pout], "expected": [win, wout]}), case);
                        break;
                    }
                }
            }
            rep.count("feedback_inner_shapes_read", printed.iter().map(|p| p.len() as u64).sum());
        }
    }
    // ---- the behaviour: connect / loopback calls with their contract outcome ----
    for (i, step) in case["steps"].as_array().unwrap().iter().enumerate() {
        let want = str_of(step, "outcome");
        rep.checks += 1;
        let got = match str_of(step, "op") {
            "connect" => {
                let (a, b) = (usize_of(step, "from") - 1, usize_of(step, "to") - 1);
                guarded(|| net.connect(a, b))
            }
            "loopback" => {
                let (b, a) = (usize_of(step, "outof") - 1, usize_of(step, "into") - 1);
                let scale: neurons::tensor::Scale = std::sync::Arc::new(|_x| 1.0);
                let (k, isk) = (usize_of(step, "iterations"), bool_of(step, "inskips"));
                guarded(|| net.loopback(b, a, k, scale, isk))
            }
            op => panic!("harness: unknown flow op {}", op),
        };
        match (&got, want) {
            (Ok(()), "panic") => {
                rep.mismatch(prop, "second_connection_to_same_target_accepted_replacing_the_first", &id, json!({"step": i, "call": step}), case);
                return;
            }
            (Err(e), "ok") => {
                rep.mismatch(prop, "valid_connection_rejected", &id, json!({"step": i, "call": step, "panic": e}), case);
                return;
            }
            _ => (),
        }
        // between two connect calls the network is USED (a forward and a backward pass): the connections made afterwards
        // count all the same -- the evaluations below know nothing of this intermezzo
        if mode == "skip" && i + 1 < case["steps"].as_array().unwrap().len() {
            if let Some(ev) = case["evals"].as_array().and_then(|a| a.first()) {
                let (x0, g0) = (spec_value_tensor(&ev["x"]), spec_value_tensor(&ev["g"]));
                let _ = guarded(|| {
                    let (pre, post, max, fbs) = net.forward(&x0);
                    net.verif_backward(g0, &pre, &post, &max, fbs)
                });
                rep.count("backward_passes_between_connect_calls", 1);
            }
        }
    }
    // ---- evaluations ----
    for eval in case["evals"].as_array().unwrap() {
        let x = spec_value_tensor(&eval["x"]);
        match mode {
            "fb" => {
                training_mode_repetition(case, &layers, &x, rep, &id);
                rep.checks += 1;
                // the network-level accumulations (for skip and loop connections) are set to something ELSE than the block's
                // own accumulation: a block keeps the accumulation it was created with
                let other = if case["cfg"]["acc"] == "mean" { "add" } else { "mean" };
                net.set_accumulation(nets::accumulation(other), nets::accumulation(other));
                match guarded(|| net.predict(&x)) {
                    Err(e) => {
                        shapes_did_not_fit(rep, &e, &id, case);
                        rep.mismatch(prop, "predict_panicked", &id, json!({"panic": e, "cfg": case["cfg"]}), case)
                    }
                    Ok(y) => {
                        if let Some(d) = diff_spec_value(&y, &eval["y"]) {
                            rep.mismatch(prop, "block_output", &id, json!({"diff": d, "cfg": case["cfg"]}), case);
                            continue;
                        }
                    }
                }
                // C01: per-copy parameter gradients of blocks without internal skips = gradients of the unrolled network
                if bool_of(eval, "kinkfree") {
                    let g = spec_value_tensor(&eval["g"]);
                    rep.checks += 1;
                    rep.count("feedback_gradient_cases", 1);
                    let res = guarded(|| {
                        let (pre, post, max, fbs) = net.forward(&x);
                        net.verif_backward(g, &pre, &post, &max, fbs)
                    });
                    match res {
                        Err(e) => rep.mismatch("C01", "feedback_backward_panicked", &id, json!({"panic": e, "cfg": case["cfg"]}), case),
                        Ok((wg, bg)) => {
                            let layout = usizes(&eval["layout"]);
                            let n = layout.len();
                            let mut offset = 0usize;
                            'outer: for i in 0..n {
                                // gradient tensors of layer i, in forward order of its unrolled layers
                                let (ws, bs): (Vec<Tensor>, Vec<Option<Tensor>>) = if layout[i] == 1 && str_of(&layers[i], "kind") != "fb" {
                                    (vec![wg[n - 1 - i].clone()], vec![bg[n - 1 - i].clone()])
                                } else {
                                    let mut w = wg[n - 1 - i].unnested();
                                    let mut b = bg[n - 1 - i].as_ref().map(|t| t.unnestedoptional()).unwrap_or_default();
                                    w.reverse();
                                    b.reverse();
                                    (w, b)
                                };
                                for j in 0..layout[i] {
                                    let want = &eval["ugrads"][offset + j];
                                    let is_pool = want["dw"].as_array().map(|a| a.is_empty()).unwrap_or(true);
                                    if !is_pool {
                                        let mut d = ws.get(j).and_then(|t| diff_exact(t, &want["dw"]));
                                        if ws.get(j).is_none() {
                                            d = Some("missing gradient".to_string());
                                        }
                                        if d.is_none() && eval["ubias"][offset + j].as_bool().unwrap_or(false) {
                                            d = match bs.get(j).and_then(|b| b.as_ref()) {
                                                Some(b) => diff_exact(b, &want["db"]),
                                                None => Some("bias gradient missing".to_string()),
                                            };
                                        }
                                        if let Some(d) = d {
                                            rep.mismatch("C01", "feedback_block_gradient", &id, json!({"layer": i, "unrolled": j, "diff": d, "cfg": case["cfg"]}), case);
                                            break 'outer;
                                        }
                                    }
                                }
                                offset += layout[i];
                            }
                        }
                    }
                }
            }
            "skip" | "loop" => {
                // vacuity guard: the accumulations must be distinguishable on this case
                let distinct: std::collections::HashSet<String> = eval["predict"].as_object().unwrap().values().map(|v| v["y"].to_string()).collect();
                if distinct.len() >= 4 {
                    rep.count("cases_with_distinct_accumulation_outputs", 1);
                }
                // frame condition of Network.tla: the loop accumulation is read only where a loop connection exists, the skip
                // accumulation only where a skip connection exists -- so the setting that does NOT apply to this network is
                // rotated through all five values (per case and accumulation), and nothing may change
                const ALL_ACCS: [&str; 5] = ["add", "subtract", "multiply", "overwrite", "mean"];
                let has_connect = case["steps"].as_array().unwrap().iter().any(|s| s["op"] == "connect" && s["outcome"] == "ok");
                let has_loop = case["steps"].as_array().unwrap().iter().any(|s| s["op"] == "loopback" && s["outcome"] == "ok");
                let salt = id.bytes().fold(0usize, |h, b| h.wrapping_mul(31).wrapping_add(b as usize));
                let irrelevant = |k: usize| ALL_ACCS[(salt + k) % 5];
                for (k, (acc, pv)) in eval["predict"].as_object().unwrap().iter().enumerate() {
                    if mode == "skip" {
                        let other = if has_loop { "mean" } else { irrelevant(k) };
                        net.set_accumulation(nets::accumulation(acc), nets::accumulation(other));
                    } else {
                        let other = if has_connect { "add" } else { irrelevant(k) };
                        net.set_accumulation(nets::accumulation(other), nets::accumulation(acc));
                    }
                    rep.count("evaluations_with_the_other_accumulation_rotated", 1);
                    rep.checks += 1;
                    match guarded(|| net.predict(&x)) {
                        Err(e) => {
                            shapes_did_not_fit(rep, &e, &id, case);
                            rep.mismatch(prop, "predict_panicked", &id, json!({"panic": e, "accumulation": acc}), case)
                        }
                        Ok(y) => {
                            if let Some(d) = diff_spec_value(&y, &pv["y"]) {
                                rep.mismatch(prop, "prediction", &id, json!({"diff": d, "accumulation": acc}), case);
                            }
                        }
                    }
                }
                if mode == "skip" && bool_of(eval, "kinkfree") {
                    net.set_accumulation(nets::accumulation("add"), nets::accumulation(if has_loop { "mean" } else { irrelevant(7) }));
                    let g = spec_value_tensor(&eval["g"]);
                    rep.checks += 1;
                    let res = guarded(|| {
                        let (pre, post, max, fbs) = net.forward(&x);
                        net.verif_backward(g, &pre, &post, &max, fbs)
                    });
                    match res {
                        Err(e) => {
                            shapes_did_not_fit(rep, &e, &id, case);
                            rep.mismatch(prop, "backward_panicked", &id, json!({"panic": e}), case)
                        }
                        Ok((wg, bg)) => {
                            let n = layers.len();
                            for (i, want) in eval["grads"].as_array().unwrap().iter().enumerate() {
                                if str_of(&layers[i], "kind") == "pool" {
                                    continue;
                                }
                                let mut d = diff_exact(&wg[n - 1 - i], &want["dw"]);
                                if d.is_none() && layers[i]["cfg"]["bias"].as_bool().unwrap_or(false) {
                                    d = match &bg[n - 1 - i] {
                                        Some(b) => diff_exact(b, &want["db"]),
                                        None => Some("bias gradient missing".to_string()),
                                    };
                                }
                                if let Some(d) = d {
                                    rep.mismatch(prop, "gradient_with_additive_skip", &id, json!({"layer": i, "diff": d}), case);
                                    break;
                                }
                            }
                        }
                    }
                }
                if mode == "loop" {
                    // the forward pass `learn` performs is the same function (no dropout here): with the gradient clamped to
                    // (0, 0) nothing is updated, and the training loss of one epoch on one sample is the loss of predict(x)
                    for (k, (acc, _)) in eval["predict"].as_object().unwrap().iter().enumerate() {
                        net.set_accumulation(nets::accumulation(if has_connect { "add" } else { irrelevant(k + 2) }), nets::accumulation(acc));
                        rep.checks += 1;
                        let r = guarded(|| {
                            let y = net.predict(&x);
                            let mut t = y.clone();
                            t.add_inplace(&y);
                            net.set_objective(neurons::objective::Objective::MSE, Some((0.0, 0.0)));
                            net.set_optimizer(neurons::optimizer::SGD::create(0.1, None));
                            let want = neurons::objective::Function::create(neurons::objective::Objective::MSE, Some((0.0, 0.0))).loss(&y, &t).0;
                            let (train, _, _) = net.learn(&vec![&x], &vec![&t], None, 1, 1, None);
                            (want, train)
                        });
                        match r {
                            Err(_) => rep.count("loop_training_pass_refused", 1),
                            Ok((want, train)) => {
                                rep.count("loop_training_passes", 1);
                                if train.len() != 1 || train[0].to_bits() != want.to_bits() {
                                    rep.mismatch(prop, "training_forward_pass_differs_from_predict", &id, json!({"accumulation": acc, "loss_of_predict": want, "training_loss": train}), case);
                                    break;
                                }
                            }
                        }
                    }
                    // the same network with every bias and the input scaled by 2^-30: all layers are positively homogeneous,
                    // so every accumulation except the product scales with them -- the loop must not behave differently
                    // for values far below any tolerance
                    let sc = (2.0f64).powi(-30) as f32;
                    let scaled_layers: Vec<Value> = layers
                        .iter()
                        .map(|l| {
                            let mut l2 = l.clone();
                            if let Some(b) = l2["params"].get("b").and_then(|b| b.as_array()).cloned() {
                                l2["params"]["b"] = json!(b.iter().map(|v| num(v) * sc).collect::<Vec<f32>>());
                            }
                            l2
                        })
                        .collect();
                    let xs_flat: Vec<f32> = flat(&x).iter().map(|v| v * sc).collect();
                    let xs = match &x.data {
                        neurons::tensor::Data::Single(_) => Tensor::single(xs_flat),
                        _ => crate::tensors::triple_rowmajor(&data_dims(&x.data), &xs_flat),
                    };
                    let built = guarded(|| {
                        let mut n2 = build_flow_net(case, &scaled_layers);
                        for step in case["steps"].as_array().unwrap() {
                            match str_of(step, "op") {
                                "connect" => n2.connect(usize_of(step, "from") - 1, usize_of(step, "to") - 1),
                                _ => {
                                    let scale: neurons::tensor::Scale = std::sync::Arc::new(|_x| 1.0);
                                    n2.loopback(usize_of(step, "outof") - 1, usize_of(step, "into") - 1, usize_of(step, "iterations"), scale, bool_of(step, "inskips"))
                                }
                            }
                        }
                        n2
                    });
                    if let Ok(mut n2) = built {
                        for (acc, pv) in eval["predict"].as_object().unwrap() {
                            if acc == "multiply" {
                                continue;
                            }
                            n2.set_accumulation(nets::accumulation(if has_connect { "add" } else { irrelevant(3) }), nets::accumulation(acc));
                            rep.checks += 1;
                            if let Ok(y) = guarded(|| n2.predict(&xs)) {
                                let den = pv["y"]["den"].as_i64().unwrap_or(1) as f32;
                                let mut want: Vec<f32> = Vec::new();
                                flat_json(&pv["y"]["data"], &mut want);
                                let got = flat(&y);
                                let bad = got.len() != want.len()
                                    || got.iter().zip(want.iter()).any(|(g, w)| {
                                        let e = (*w / den) * sc;
                                        (*g - e).abs() > 1e-5 * e.abs()
                                    });
                                if bad {
                                    rep.mismatch(prop, "prediction_of_the_scaled_network", &id, json!({"accumulation": acc, "scale": "2^-30", "observed": got.iter().map(|v| format!("{:e}", v)).collect::<Vec<_>>(),
                                                                                                     "expected": want.iter().map(|w| format!("{:e}", (*w / den) * sc)).collect::<Vec<_>>()}), case);
                                    break;
                                }
                            }
                        }
                    }
                }
                if mode == "loop" && case["steps"].as_array().map(|a| a.len()) == Some(1) {
                    // Overwrite accumulation without input skips == the real unrolled network with the same weights
                    let step = &case["steps"][0];
                    if !bool_of(step, "inskips") {
                        let (a, b, k) = (usize_of(step, "into") - 1, usize_of(step, "outof") - 1, usize_of(step, "iterations"));
                        let mut unrolled: Vec<Value> = layers[..a].to_vec();
                        for _ in 0..=k {
                            unrolled.extend_from_slice(&layers[a..=b]);
                        }
                        unrolled.extend_from_slice(&layers[b + 1..]);
                        rep.checks += 1;
                        net.set_accumulation(nets::accumulation(if has_connect { "add" } else { irrelevant(4) }), nets::accumulation("overwrite"));
                        match guarded(|| (build_flow_net(case, &unrolled).predict(&x), net.predict(&x))) {
                            Err(e) => rep.mismatch(prop, "unrolled_comparison_panicked", &id, json!({"panic": e}), case),
                            Ok((u, y)) => {
                                if nets::tensor_bits(&u) != nets::tensor_bits(&y) {
                                    rep.mismatch(prop, "overwrite_loop_differs_from_unrolled_network", &id, json!({"loop": flat(&y), "unrolled": flat(&u)}), case);
                                }
                            }
                        }
                    }
                }
            }
            _ => panic!("harness: unknown flow mode"),
        }
    }
    // C11, "with shared weights": one training step later every repetition of every block still holds the weights of
    // the first one (blocks without skips and without max-pool layers, which the library can train)
    if mode == "fb" && !bool_of(&case["cfg"], "inskips") && !bool_of(&case["cfg"], "outskips") {
        let trainable = layers.iter().all(|l| str_of(l, "kind") != "fb" || l["inner"].as_array().unwrap().iter().all(|i| str_of(i, "kind") != "pool"));
        if let (true, Some(eval)) = (trainable, case["evals"].as_array().and_then(|a| a.first())) {
            let x = spec_value_tensor(&eval["x"]);
            rep.checks += 1;
            let trained = guarded(|| {
                net.set_objective(neurons::objective::Objective::MSE, None);
                net.set_optimizer(neurons::optimizer::SGD::create(0.015625, None));
                // a target of the prediction's own shape, different from the prediction
                let y = net.predict(&x);
                let mut t = y.clone();
                t.add_inplace(&y);
                t.add_inplace(&y);
                net.learn(&vec![&x], &vec![&t], None, 1, 1, None);
            });
            match trained {
                Err(e) => {
                    rep.count("fb_training_step_refused", 1);
                    rep.notes.push(format!("fb training step refused: net {} loops {}: {}", case["cfg"]["netid"], case["cfg"]["loops"], &e[..e.len().min(120)]));
                }
                Ok(()) => {
                    rep.count("fb_training_steps", 1);
                    for (i, l) in layers.iter().enumerate() {
                        if str_of(l, "kind") != "fb" {
                            continue;
                        }
                        let period = l["inner"].as_array().unwrap().len();
                        let inner = verif::inner_layers(&net.layers[i]);
                        for (j, il) in inner.iter().enumerate() {
                            let (a, b) = (nets_flat(&verif::layer_params(&inner[j % period])), nets_flat(&verif::layer_params(il)));
                            if a.iter().map(|v| v.to_bits()).collect::<Vec<u32>>() != b.iter().map(|v| v.to_bits()).collect::<Vec<u32>>() {
                                rep.mismatch("C11", "repetitions_hold_different_weights_after_a_training_step", &id,
                                             json!({"block": i, "unrolled_layer": j, "cfg": case["cfg"]}), case);
                                return;
                            }
                        }
                    }
                }
            }
        }
    }
}

fn nets_flat(p: &verif::Params) -> Vec<f32> {
    let mut v = Vec::new();
    if let Some(w) = &p.weights { v.extend(w.iter().flatten()); }
    if let Some(b) = &p.bias { v.extend(b.iter()); }
    if let Some(k) = &p.kernels { v.extend(k.iter().flatten().flatten().flatten()); }
    v
}

// ------------------------------------------------------------------------------------------------
// Group "tying": feedback blocks keep their repeated layers weight-tied (C10)
// ------------------------------------------------------------------------------------------------

fn copies_equal(net: &Network, period: usize) -> Option<String> {
    for layer in net.layers.iter() {
        let inner = verif::inner_layers(layer);
        for (j, l) in inner.iter().enumerate() {
            let base = &inner[j % period];
            let (a, b) = (verif::layer_params(base), verif::layer_params(l));
            let bits = |p: &verif::Params| -> Vec<u32> {
                let mut v = Vec::new();
                if let Some(w) = &p.weights { v.extend(w.iter().flatten().map(|x| x.to_bits())); }
                if let Some(w) = &p.bias { v.extend(w.iter().map(|x| x.to_bits())); }
                if let Some(w) = &p.kernels { v.extend(w.iter().flatten().flatten().flatten().map(|x| x.to_bits())); }
                v
            };
            if bits(&a) != bits(&b) {
                return Some(format!("unrolled layer {} differs from layer {} (same position in repetition 0)", j, j % period));
            }
            if a.weights.iter().flatten().flatten().any(|x| !x.is_finite()) || a.kernels.iter().flatten().flatten().flatten().flatten().any(|x| !x.is_finite()) {
                return Some(format!("non-finite parameter in unrolled layer {}", j));
            }
        }
    }
    None
}

pub fn replay_tying(case: &Value, rep: &mut Report, rng: &mut Rng) {
    let block = case["block"].as_array().unwrap();
    let loops = usize_of(case, "loops");
    let acc = str_of(case, "acc");
    let opt = str_of(case, "optimizer");
    let (batch, steps) = (usize_of(case, "batch"), usize_of(case, "steps"));
    let id = format!("tying:{}:loops{}:{}:{}:b{}s{}", case["block"], loops, acc, opt, batch, steps);
    let spatial = block[0][0] != "dense";
    let inner: Vec<Value> = block
        .iter()
        .map(|l| match l[0].as_str().unwrap() {
            "dense" => json!({"kind": "dense", "out": l[1], "act": "tanh", "bias": l[2]}),
            k => {
                let (kh, kw) = match l.get(3) {
                    Some(kk) => (kk[0].as_u64().unwrap(), kk[1].as_u64().unwrap()),
                    None => (3, 3),
                };
                json!({"kind": k, "filters": l[1], "kernel": [kh, kw], "stride": [1, 1], "padding": [(kh - 1) / 2, (kw - 1) / 2], "act": "tanh"})
            }
        })
        .collect();
    // a dense block consumes what its last layer produces
    let width = if spatial { 16 } else { block[block.len() - 1][1].as_u64().unwrap() as usize };
    // "<kind>-decay": the same optimizer with weight decay (an update that rewrites its gradient argument)
    let mut optimizer = match opt.trim_end_matches("-decay") {
        "sgd" => json!({"kind": "sgd", "lr": 0.0625}),
        "sgdm" => json!({"kind": "sgdm", "lr": 0.0625, "momentum": 0.5}),
        "adam" => json!({"kind": "adam", "lr": 0.01}),
        "adamw" => json!({"kind": "adamw", "lr": 0.01, "decay": 0.01}),
        _ => json!({"kind": "rmsprop", "lr": 0.01, "alpha": 0.9, "momentum": 0.5, "centered": true}),
    };
    if opt.ends_with("-decay") {
        optimizer["decay"] = json!(0.0625);
    }
    // (skips only between dense layers of ONE width: with mixed widths the library cannot back-propagate through the skips)
    let skips_ok = !spatial && block.iter().all(|l| l[1] == block[0][1]);
    let arch = json!({"input": if spatial { json!([1, 4, 4]) } else { json!([width]) }, "out": 2, "ints": false,
        // (dense blocks also with input and / or output skips, rotating over the cases: the unrolled copies are one parameter set
        // whatever the dataflow between them is; blocks of spatial layers with skips cannot be trained in front of a dense layer,
        // nor can dense blocks of mixed widths)
        "layers": [{"kind": "feedback", "layers": inner, "loops": loops, "acc": acc,
                    "inskips": skips_ok && (loops + batch) % 2 == 0, "outskips": skips_ok && (loops + block.len() + steps) % 3 == 0},
                   {"kind": "dense", "out": 2, "act": "linear", "bias": false}],
        "objective": {"kind": "mse"}, "optimizer": optimizer});
    rep.checks += 3;
    rep.nontrivial(id.clone());
    let mut net = match guarded(|| nets::build(&arch)) {
        Ok(n) => n,
        Err(e) => {
            rep.mismatch("C10", "block_rejected", &id, json!({"panic": e}), case);
            return;
        }
    };
    let period = block.len();
    // created as identical clones
    if let Some(d) = copies_equal(&net, period) {
        rep.mismatch("C10", "copies_differ_at_creation", &id, json!({"diff": d}), case);
        return;
    }
    // the reported parameter count counts each shared parameter once
    let want = usize_of(case, "count") + width * 2;
    match parameters_line(&net) {
        Some(n) if n == want => (),
        other => {
            rep.mismatch("C10", "parameter_count", &id, json!({"expected": want, "reported": other}), case);
        }
    }
    nets::randomize_floats(&mut net, &arch, rng, 0.6);
    let data = crate::training::arch_dataset(&arch, 3, rng);
    let xr: Vec<&Tensor> = data.inputs.iter().collect();
    let yr: Vec<&Tensor> = data.targets.iter().collect();
    match guarded(|| net.learn(&xr, &yr, None, batch, steps as i32, None)) {
        Err(e) => rep.mismatch("C10", "training_panicked", &id, json!({"panic": e, "acc": acc, "block": case["block"]}), case),
        Ok(_) => {
            if let Some(d) = copies_equal(&net, period) {
                rep.mismatch("C10", "copies_differ_after_training", &id, json!({"diff": d}), case);
                return;
            }
        }
    }
    // one more step whose gradients are all exactly zero (the target is the current prediction): a stateful optimizer
    // still moves every copy by its own moments, and the copies must be coupled again
    rep.checks += 1;
    let x1 = data.inputs[0].clone();
    match guarded(|| {
        let t1 = net.predict(&x1);
        net.learn(&vec![&x1], &vec![&t1], None, 1, 1, None)
    }) {
        Err(e) => rep.mismatch("C10", "training_panicked", &id, json!({"panic": e, "phase": "zero gradient step"}), case),
        Ok(_) => {
            if let Some(d) = copies_equal(&net, period) {
                rep.mismatch("C10", "copies_differ_after_a_zero_gradient_step", &id, json!({"diff": d}), case);
            }
        }
    }
}

// ------------------------------------------------------------------------------------------------
// Recording driver "net": builder sessions and forward / backward passes of random networks
// (implementation -> specification, validated by Trace_Net against Network.tla)
// ------------------------------------------------------------------------------------------------

fn ints_json(t: &Tensor) -> Value {
    fn conv(v: &Value) -> Value {
        match v.as_array() {
            Some(a) => Value::Array(a.iter().map(conv).collect()),
            None => json!(v.as_f64().unwrap() as i64),
        }
    }
    json!({"shape": data_dims(&t.data), "data": conv(&tensor_json(t))})
}

fn sparse_int(rng: &mut Rng) -> f32 {
    match rng.below(6) {
        0 => 1.0,
        1 => -1.0,
        2 => 2.0,
        _ => 0.0,
    }
}

/// Random hyper-parameters of a spatial layer that fit an input of h x w (standard size formulas).
fn random_hp(kind: &str, h: usize, w: usize, rng: &mut Rng) -> Option<Value> {
    for _ in 0..20 {
        let (kh, kw) = (rng.range(1, 3) as usize, rng.range(1, 3) as usize);
        let (sh, sw) = (rng.range(1, 2) as usize, rng.range(1, 2) as usize);
        let (ph, pw) = (rng.range(0, 2) as usize, rng.range(0, 2) as usize);
        let (dh, dw) = (rng.range(1, 2) as usize, rng.range(1, 2) as usize);
        let f = rng.range(1, 2) as usize;
        let act = if rng.below(2) == 0 { "linear" } else { "relu" };
        let ok = match kind {
            "conv" => h + 2 * ph >= dh * (kh - 1) + 1 && w + 2 * pw >= dw * (kw - 1) + 1,
            "deconv" => (h - 1) * sh + kh > 2 * ph && (w - 1) * sw + kw > 2 * pw && ph <= 1 && pw <= 1,
            _ => kh <= h && kw <= w,
        };
        if !ok {
            continue;
        }
        return Some(match kind {
            "conv" => json!({"f": f, "kh": kh, "kw": kw, "sh": sh, "sw": sw, "ph": ph, "pw": pw, "dh": dh, "dw": dw, "act": act, "bias": false}),
            "deconv" => json!({"f": f, "kh": kh, "kw": kw, "sh": sh, "sw": sw, "ph": ph, "pw": pw, "dh": 1, "dw": 1, "act": act, "bias": false}),
            _ => json!({"f": 1, "kh": kh, "kw": kw, "sh": rng.range(1, 3), "sw": rng.range(1, 3), "ph": 0, "pw": 0, "dh": 1, "dw": 1, "act": "linear", "bias": false}),
        });
    }
    None
}

fn layer_params_json(layer: &Layer) -> Value {
    let p = verif::layer_params(layer);
    let ints2 = |w: &Vec<Vec<f32>>| json!(w.iter().map(|r| r.iter().map(|x| *x as i64).collect::<Vec<i64>>()).collect::<Vec<_>>());
    match p.kind {
        "dense" => {
            let w = p.weights.unwrap();
            let n = w.len();
            json!({"W": ints2(&w), "b": p.bias.map(|b| b.iter().map(|x| *x as i64).collect::<Vec<i64>>()).unwrap_or(vec![0; n])})
        }
        "convolution" | "deconvolution" => json!({"K": p.kernels.unwrap().iter().map(|f| f.iter().map(|c| c.iter().map(|r| r.iter().map(|x| *x as i64).collect::<Vec<i64>>()).collect::<Vec<_>>()).collect::<Vec<_>>()).collect::<Vec<_>>()}),
        _ => json!({"K": []}),
    }
}

pub fn record_net(seed: u64, tier: &str, trace: &mut Vec<Value>, rep: &mut Report) {
    let mut rng = Rng::new(seed ^ 0x0E7);
    let sessions = if tier == "thorough" { 150 } else { 25 };
    for session in 0..sessions {
        // ---- input shape and builder calls ----
        let spatial_input = rng.below(3) != 0;
        let input: Vec<usize> = if spatial_input {
            vec![rng.range(1, 2) as usize, rng.range(3, 8) as usize, rng.range(3, 8) as usize]
        } else {
            vec![*rng.pick(&[4usize, 6, 9, 12, 16])]
        };
        let mut net = Network::new(shape_from(&json!(input)));
        trace.push(json!({"event": "New", "session": session, "input": input}));
        let mut out: Vec<usize> = input.clone();
        let depth = rng.range(1, 4) as usize;
        let mut accepted = 0usize;
        let mut attempts = 0;
        let mut has_block = false;
        while accepted < depth && attempts < 12 {
            attempts += 1;
            // sometimes a feedback block whose layers preserve the current shape (flat: dense n -> n; spatial: 3x3, padding 1)
            if rng.below(5) == 0 && out.iter().product::<usize>() <= 64 {
                let flat_in = out.len() == 1;
                let nitems = rng.range(1, 2) as usize;
                let items: Vec<Value> = (0..nitems)
                    .map(|_| {
                        let act = if rng.below(2) == 0 { "linear" } else { "relu" };
                        if flat_in {
                            json!({"kind": "dense", "hp": {"f": out[0], "kh": 1, "kw": 1, "sh": 1, "sw": 1, "ph": 0, "pw": 0, "dh": 1, "dw": 1, "act": act, "bias": rng.below(2) == 0}})
                        } else {
                            let kind = if rng.below(2) == 0 { "conv" } else { "deconv" };
                            json!({"kind": kind, "hp": {"f": out[0], "kh": 3, "kw": 3, "sh": 1, "sw": 1, "ph": 1, "pw": 1, "dh": 1, "dw": 1, "act": act, "bias": false}})
                        }
                    })
                    .collect();
                let (loops, isk, osk) = (rng.range(1, 3) as usize, rng.below(2) == 0, rng.below(2) == 0);
                let acc = *rng.pick(&["add", "subtract", "overwrite"]);
                let desc = json!({"kind": "feedback", "loops": loops, "inskips": isk, "outskips": osk, "acc": acc,
                                  "layers": items.iter().map(|it| desc_from_hp(str_of(it, "kind"), &it["hp"])).collect::<Vec<_>>()});
                match guarded(|| nets::add_layer(&mut net, &desc)) {
                    Ok(()) => {
                        let idx = net.layers.len() - 1;
                        // sparse integer parameters, the same for every unrolled copy
                        let mut params_json = Vec::new();
                        {
                            let inner = verif::inner_layers_mut(&mut net.layers[idx]);
                            let total = inner.len();
                            for j in 0..nitems {
                                let p = verif::layer_params(&inner[j]);
                                let mut f = || sparse_int(&mut rng);
                                let newp = verif::Params {
                                    kind: p.kind,
                                    weights: p.weights.as_ref().map(|w| w.iter().map(|r| r.iter().map(|_| f()).collect()).collect()),
                                    bias: p.bias.as_ref().map(|b| b.iter().map(|_| f()).collect()),
                                    kernels: p.kernels.as_ref().map(|k| k.iter().map(|a| a.iter().map(|b| b.iter().map(|c| c.iter().map(|_| f()).collect()).collect()).collect()).collect()),
                                };
                                let mut c = j;
                                while c < total {
                                    verif::set_layer(&mut inner[c], newp.clone());
                                    c += nitems;
                                }
                                params_json.push(layer_params_json(&inner[j]));
                            }
                        }
                        let (ain, aout) = announced(&net, idx).unwrap_or((vec![], vec![]));
                        trace.push(json!({"event": "AddBlock", "items": items, "loops": loops, "inskips": isk, "outskips": osk, "acc": acc,
                                          "outcome": "ok", "in": ain, "out": aout, "params": params_json}));
                        out = aout;
                        accepted += 1;
                        has_block = true;
                    }
                    Err(_) => {
                        trace.push(json!({"event": "AddBlock", "items": items, "loops": loops, "inskips": isk, "outskips": osk, "acc": acc,
                                          "outcome": "panic", "in": [], "out": [], "params": []}));
                    }
                }
                continue;
            }
            let kind = *rng.pick(&["dense", "dense", "conv", "conv", "deconv", "pool"]);
            // shape the layer would read (flat -> 1 x r x r when square); non-square flats are issued on purpose sometimes
            let (h, w) = if out.len() == 3 {
                (out[1], out[2])
            } else {
                let r = (out[0] as f64).sqrt() as usize;
                (r.max(1), r.max(1))
            };
            let hp = if kind == "dense" {
                json!({"f": *rng.pick(&[3usize, 4, 6, 9, 16]), "kh": 1, "kw": 1, "sh": 1, "sw": 1, "ph": 0, "pw": 0, "dh": 1, "dw": 1,
                       "act": if rng.below(2) == 0 { "linear" } else { "relu" }, "bias": rng.below(2) == 0})
            } else {
                match random_hp(kind, h, w, &mut rng) {
                    Some(hp) => hp,
                    None => continue,
                }
            };
            // keep tensors small
            let desc = desc_from_hp(kind, &hp);
            let got = guarded(|| nets::add_layer(&mut net, &desc));
            match got {
                Ok(()) => {
                    let idx = net.layers.len() - 1;
                    // sparse integer parameters
                    let p = verif::layer_params(&net.layers[idx]);
                    if p.kind != "maxpool" {
                        let mut f = || sparse_int(&mut rng);
                        let newp = verif::Params {
                            kind: p.kind,
                            weights: p.weights.as_ref().map(|w| w.iter().map(|r| r.iter().map(|_| f()).collect()).collect()),
                            bias: p.bias.as_ref().map(|b| b.iter().map(|_| f()).collect()),
                            kernels: p.kernels.as_ref().map(|k| k.iter().map(|a| a.iter().map(|b| b.iter().map(|c| c.iter().map(|_| f()).collect()).collect()).collect()).collect()),
                        };
                        verif::set_layer(&mut net.layers[idx], newp);
                    }
                    let (ain, aout) = announced(&net, idx).unwrap_or((vec![], vec![]));
                    trace.push(json!({"event": "Add", "kind": kind, "hp": hp, "outcome": "ok", "in": ain, "out": aout,
                                      "params": layer_params_json(&net.layers[idx])}));
                    out = aout;
                    accepted += 1;
                    if out.iter().product::<usize>() > 200 {
                        break;
                    }
                }
                Err(_) => {
                    trace.push(json!({"event": "Add", "kind": kind, "hp": hp, "outcome": "panic", "in": [], "out": [], "params": {}}));
                }
            }
        }
        if accepted == 0 {
            continue;
        }
        // ---- set_activation on a random layer (also invalid ones: max-pool, block, out of range) ----
        if rng.below(3) == 0 {
            let layer = rng.below(net.layers.len() as u64 + 1) as usize;
            let act = if rng.below(2) == 0 { "linear" } else { "relu" };
            let got = guarded(|| net.set_activation(layer, crate::layers::activation(act)));
            trace.push(json!({"event": "SetActivation", "layer": layer + 1, "act": act, "outcome": if got.is_ok() { "ok" } else { "panic" }}));
        }
        // ---- connections ----
        let n = net.layers.len();
        let count_in = |net: &Network, i: usize| -> usize { announced(net, i).map(|a| a.0.iter().product()).unwrap_or(0) };
        let mut plain = true;
        let mut has_loop = false;
        // calls the contract refuses (reversed or out-of-range indices, inputs of different size, shapes that do not fit,
        // a loop over a block): each is logged with its outcome, and the session goes on with the network as it was
        for _ in 0..2 {
            let (a, b) = (rng.below(n as u64 + 2) as usize, rng.below(n as u64 + 2) as usize);
            let valid = a < n && b < n && a <= b && count_in(&net, a) == count_in(&net, b);
            if !valid {
                let got = guarded(|| net.connect(a, b));
                trace.push(json!({"event": "Connect", "from": a + 1, "to": b + 1, "outcome": if got.is_ok() { "ok" } else { "panic" }}));
            }
            let (la, lb) = (rng.below(n as u64 + 2) as usize, rng.below(n as u64 + 2) as usize);
            let shapes_fit = la < n && lb < n && announced(&net, la).map(|x| x.0) == announced(&net, lb).map(|x| x.1);
            if !(la <= lb && shapes_fit) {
                let scale: neurons::tensor::Scale = std::sync::Arc::new(|_x| 1.0);
                let got = guarded(|| net.loopback(lb, la, 1, scale, false));
                trace.push(json!({"event": "Loopback", "outof": lb + 1, "into": la + 1, "iterations": 1, "inskips": false, "outcome": if got.is_ok() { "ok" } else { "panic" }}));
                if got.is_ok() {
                    has_loop = true;
                }
            }
        }
        if has_block {
            // blocks cannot be inside loops; keep these sessions plain (forward passes only)
        } else if n >= 2 && rng.below(2) == 0 {
            for _ in 0..2 {
                let a = rng.below(n as u64) as usize;
                let b = a + rng.below((n - a) as u64) as usize;
                if count_in(&net, a) != count_in(&net, b) {
                    continue;
                }
                let got = guarded(|| net.connect(a, b));
                trace.push(json!({"event": "Connect", "from": a + 1, "to": b + 1, "outcome": if got.is_ok() { "ok" } else { "panic" }}));
            }
            let skip = *rng.pick(&["add", "add", "subtract", "multiply", "overwrite"]);
            net.set_accumulation(nets::accumulation(skip), nets::accumulation("add"));
            trace.push(json!({"event": "SetAcc", "skip": skip, "loop": "add"}));
            plain = skip == "add";
        } else if n >= 1 && rng.below(3) == 0 {
            let a = rng.below(n as u64) as usize;
            let b = a + rng.below((n - a) as u64) as usize;
            let (ia, ob) = (announced(&net, a).map(|x| x.0), announced(&net, b).map(|x| x.1));
            if ia.is_some() && ia == ob {
                let scale: neurons::tensor::Scale = std::sync::Arc::new(|_x| 1.0);
                let (k, isk) = (rng.range(1, 2) as usize, rng.below(2) == 0);
                if guarded(|| net.loopback(b, a, k, scale, isk)).is_ok() {
                    let lacc = *rng.pick(&["add", "subtract", "overwrite"]);
                    net.set_accumulation(nets::accumulation("add"), nets::accumulation(lacc));
                    trace.push(json!({"event": "Loopback", "outof": b + 1, "into": a + 1, "iterations": k, "inskips": isk, "outcome": "ok"}));
                    trace.push(json!({"event": "SetAcc", "skip": "add", "loop": lacc}));
                    has_loop = true;
                }
            }
        }
        // ---- forward / backward passes on integer inputs ----
        for _ in 0..2 {
            let x = {
                let nelem: usize = input.iter().product();
                let v: Vec<f32> = (0..nelem).map(|_| rng.range(-3, 3) as f32).collect();
                if input.len() == 1 { Tensor::single(v) } else { crate::tensors::triple_rowmajor(&input, &v) }
            };
            rep.checks += 1;
            match guarded(|| net.forward(&x)) {
                Err(e) => {
                    rep.mismatch("C02", "forward_panicked_in_driver", &format!("session{}", session), json!({"panic": e}), &json!({"session": session}));
                    break;
                }
                Ok((pre, post, max, fbs)) => {
                    if post.iter().any(|t| flat(t).iter().any(|v| v.abs() > 1.0e6 || v.fract() != 0.0)) {
                        break; // outside the exact integer range: not logged
                    }
                    trace.push(json!({"event": "Forward", "x": ints_json(&x), "posts": post[1..].iter().map(ints_json).collect::<Vec<_>>()}));
                    if plain && !has_loop && !has_block {
                        let last = post.last().unwrap();
                        let g = {
                            let dims = data_dims(&last.data);
                            let v: Vec<f32> = (0..dims.iter().product::<usize>()).map(|_| (rng.range(1, 2) * if rng.below(2) == 0 { 1 } else { -1 }) as f32).collect();
                            if dims.len() == 1 { Tensor::single(v) } else { crate::tensors::triple_rowmajor(&dims, &v) }
                        };
                        if let Ok((wg, bg)) = guarded(|| net.verif_backward(g.clone(), &pre, &post, &max, fbs)) {
                            if wg.iter().any(|t| flat(t).iter().any(|v| v.abs() > 1.0e6)) {
                                continue;
                            }
                            let nl = net.layers.len();
                            let grads: Vec<Value> = (0..nl)
                                .map(|i| {
                                    let dw = ints_json(&wg[nl - 1 - i])["data"].clone();
                                    let db = bg[nl - 1 - i].as_ref().map(|b| ints_json(b)["data"].clone()).unwrap_or(json!([]));
                                    json!({"dw": dw, "db": db})
                                })
                                .collect();
                            trace.push(json!({"event": "Backward", "x": ints_json(&x), "g": ints_json(&g), "grads": grads}));
                        }
                    }
                }
            }
        }
        rep.cases += 1;
        rep.nontrivial(format!("session{}", session));
    }
    rep.count("trace_runs", sessions as u64);
}
