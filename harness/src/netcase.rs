//! Group "net": builder behaviours and network-level forward/backward enumerated by MC_Net
//! (C08 announced = produced shapes and rejections, C02 composition, C01 network gradients),
//! and group "flow": skip / loop / feedback dataflow cases (C16, C17, C11, C10).

use crate::nets;
use crate::util::*;
use neurons::network::{Layer, Network};
use neurons::tensor::Tensor;
use neurons::verif;
use serde_json::{json, Value};

/// Builder-call description from the specification's (kind, hyper-parameter) pair.
pub fn desc_from_hp(kind: &str, hp: &Value) -> Value {
    let u = |k: &str| hp[k].as_u64().unwrap();
    match kind {
        "dense" => json!({"kind": "dense", "out": u("f"), "act": hp["act"], "bias": hp["bias"]}),
        "conv" => json!({"kind": "conv", "filters": u("f"), "kernel": [u("kh"), u("kw")], "stride": [u("sh"), u("sw")],
                         "padding": [u("ph"), u("pw")], "dilation": [u("dh"), u("dw")], "act": hp["act"]}),
        "deconv" => json!({"kind": "deconv", "filters": u("f"), "kernel": [u("kh"), u("kw")], "stride": [u("sh"), u("sw")],
                           "padding": [u("ph"), u("pw")], "act": hp["act"]}),
        "pool" => json!({"kind": "pool", "kernel": [u("kh"), u("kw")], "stride": [u("sh"), u("sw")]}),
        k => panic!("harness: unknown kind {}", k),
    }
}

fn parse_shape(s: &str) -> Vec<usize> {
    s.split('x').map(|p| p.trim().parse::<usize>().unwrap_or(usize::MAX)).collect()
}

/// Shapes announced by the network's Display output for layer `index`: (in, out).
pub fn announced(net: &Network, index: usize) -> Option<(Vec<usize>, Vec<usize>)> {
    let text = format!("{}", net);
    let header = format!("\t\t{}: ", index);
    let mut lines = text.lines();
    while let Some(line) = lines.next() {
        if line.starts_with(&header) {
            for l in lines.by_ref() {
                if let Some(pos) = l.find(" -> ") {
                    let a = l[..pos].trim();
                    let b = l[pos + 4..].trim();
                    return Some((parse_shape(a), parse_shape(b)));
                }
            }
        }
    }
    None
}

pub fn parameters_line(net: &Network) -> Option<usize> {
    let text = format!("{}", net);
    for l in text.lines() {
        if let Some(rest) = l.trim().strip_prefix("parameters: ") {
            return rest.trim().parse().ok();
        }
    }
    None
}

/// Tensor with denominator from the specification: {"shape":[..], "data": nested, "den": d}
pub fn spec_value_tensor(v: &Value) -> Tensor {
    let den = v["den"].as_i64().unwrap_or(1) as f32;
    let mut t = tensor_from(&v["data"]);
    if den != 1.0 {
        t.div_scalar_inplace(den);
    }
    t
}

fn is_pow2(d: i64) -> bool {
    d > 0 && (d & (d - 1)) == 0
}

/// Compare a real tensor with a specification value data/den: exact when den is a power of two
/// (all intermediate values are then dyadic and exact in f32), otherwise within 1e-5.
pub fn diff_spec_value(t: &Tensor, want: &Value) -> Option<String> {
    let want_dims = dims_json(&want["data"]);
    let got_dims = data_dims(&t.data);
    if want_dims != got_dims {
        return Some(format!("dimensions: expected {:?}, observed {:?}", want_dims, got_dims));
    }
    if shape_dims(&t.shape) != got_dims {
        return Some(format!("recorded shape {:?} does not match data dimensions {:?}", shape_dims(&t.shape), got_dims));
    }
    let den = want["den"].as_i64().unwrap_or(1);
    let mut nums = Vec::new();
    flat_json(&want["data"], &mut nums);
    let expect: Vec<f32> = nums.iter().map(|n| n / den as f32).collect();
    if is_pow2(den) {
        diff_flat_exact(&flat(t), &expect)
    } else {
        diff_flat_close(&flat(t), &expect, 1e-5)
    }
}

pub fn install_params(layer: &mut Layer, kind: &str, params: &Value, bias: bool) {
    match kind {
        "dense" => verif::set_layer(
            layer,
            verif::Params { kind: "dense", weights: Some(vec2(&params["W"])), bias: if bias { Some(vec1(&params["b"])) } else { None }, kernels: None },
        ),
        "conv" | "deconv" => verif::set_layer(
            layer,
            verif::Params { kind: "convolution", weights: None, bias: None, kernels: Some(vec4(&params["K"])) },
        ),
        _ => (),
    }
}

pub fn replay_net(case: &Value, rep: &mut Report) {
    let input = usizes(&case["input"]);
    let steps = case["steps"].as_array().unwrap();
    let mut key = format!("{:?}", input);
    for s in steps {
        key.push_str(&format!("|{}{}", str_of(s, "kind"), s["hp"]));
    }
    let id = format!("net:{}", key);
    let mut net = Network::new(shape_from(&case["input"]));
    let mut accepted = 0usize;
    for (i, step) in steps.iter().enumerate() {
        let kind = str_of(step, "kind");
        let desc = desc_from_hp(kind, &step["hp"]);
        let want = str_of(step, "outcome");
        rep.checks += 1;
        let got = guarded(|| nets::add_layer(&mut net, &desc));
        match (&got, want) {
            (Ok(()), "panic") => {
                let ann = announced(&net, net.layers.len() - 1);
                rep.mismatch(
                    "C08",
                    if kind != "dense" && net.layers.len() > 1 { "flat_size_not_rejected" } else { "invalid_layer_not_rejected" },
                    &id,
                    json!({"step": i, "kind": kind, "announced": ann.map(|a| json!({"in": a.0, "out": a.1}))}),
                    case,
                );
                return;
            }
            (Err(e), "ok") => {
                rep.mismatch("C08", "valid_layer_rejected", &id, json!({"step": i, "kind": kind, "panic": e}), case);
                return;
            }
            (Err(_), _) => continue,
            (Ok(()), _) => (),
        }
        // announced shapes
        let idx = net.layers.len() - 1;
        accepted += 1;
        match announced(&net, idx) {
            None => rep.mismatch("C08", "announced_shape_unreadable", &id, json!({"step": i}), case),
            Some((ain, aout)) => {
                if ain != usizes(&step["in"]) || aout != usizes(&step["out"]) {
                    rep.mismatch(
                        "C08",
                        "announced_shape",
                        &id,
                        json!({"step": i, "kind": kind, "expected": {"in": step["in"], "out": step["out"]}, "announced": {"in": ain, "out": aout}}),
                        case,
                    );
                    return;
                }
            }
        }
    }
    let layers = case["layers"].as_array().unwrap();
    if accepted != layers.len() || net.layers.len() != layers.len() {
        panic!("harness: layer count mismatch after builder replay");
    }
    for (l, spec) in net.layers.iter_mut().zip(layers.iter()) {
        let kind = str_of(spec, "kind");
        install_params(l, kind, &spec["params"], spec["cfg"]["bias"].as_bool().unwrap_or(false));
    }
    rep.nontrivial(key);

    for eval in case["evals"].as_array().unwrap() {
        let x = spec_value_tensor(&eval["x"]);
        rep.checks += 1;
        let fwd = guarded(|| net.forward(&x));
        let (pre, post, max, fbs) = match fwd {
            Ok(r) => r,
            Err(e) => {
                rep.mismatch("C08", "forward_panicked_on_announced_shapes", &id, json!({"panic": e}), case);
                rep.mismatch("C02", "network_forward_panicked", &id, json!({"panic": e}), case);
                return;
            }
        };
        let mut forward_ok = true;
        for (i, want) in eval["posts"].as_array().unwrap().iter().enumerate() {
            // post[0] is the input itself
            let got = &post[i + 1];
            if let Some(d) = diff_spec_value(got, want) {
                forward_ok = false;
                if d.contains("dimensions") || d.contains("recorded shape") {
                    rep.mismatch("C08", "produced_shape_differs_from_announced", &id, json!({"layer": i, "diff": d}), case);
                }
                rep.mismatch("C02", "network_forward_value", &id, json!({"layer": i, "diff": d}), case);
                break;
            }
            let wantpre = &eval["pres"][i];
            if !wantpre["shape"].as_array().map(|a| a.is_empty()).unwrap_or(true) {
                if let Some(d) = diff_spec_value(&pre[i], wantpre) {
                    forward_ok = false;
                    if d.contains("dimensions") || d.contains("recorded shape") {
                        rep.mismatch("C08", "produced_shape_differs_from_announced", &id, json!({"layer": i, "diff": d, "tensor": "pre"}), case);
                    }
                    rep.mismatch("C02", "network_forward_value", &id, json!({"layer": i, "diff": d, "tensor": "pre"}), case);
                    break;
                }
            }
        }
        let pred = net.predict(&x);
        if nets::tensor_bits(&pred) != nets::tensor_bits(post.last().unwrap()) {
            rep.mismatch("C02", "predict_is_not_last_activation", &id, json!({}), case);
        }
        if !bool_of(eval, "kinkfree") {
            rep.count("net_cases_with_kinks_or_ties_skipped_for_gradients", 1);
            continue;
        }
        if !forward_ok {
            rep.count("net_gradients_skipped_after_forward_mismatch", 1);
            continue;
        }
        let g = spec_value_tensor(&eval["g"]);
        rep.checks += 1;
        match guarded(|| net.verif_backward(g, &pre, &post, &max, fbs)) {
            Err(e) => rep.mismatch("C01", "network_backward_panicked", &id, json!({"panic": e}), case),
            Ok((wg, bg)) => {
                let n = layers.len();
                for (i, want) in eval["grads"].as_array().unwrap().iter().enumerate() {
                    let kind = str_of(&layers[i], "kind");
                    if kind == "pool" {
                        continue;
                    }
                    let got_w = &wg[n - 1 - i];
                    if let Some(d) = diff_exact(got_w, &want["dw"]) {
                        if d.contains("dimensions") || d.contains("recorded shape") {
                            rep.mismatch("C08", "gradient_shape_differs_from_parameter_shape", &id, json!({"layer": i, "diff": d}), case);
                        }
                        rep.mismatch("C01", "network_gradient_value", &id, json!({"layer": i, "kind": kind, "diff": d}), case);
                        break;
                    }
                    if layers[i]["cfg"]["bias"].as_bool().unwrap_or(false) {
                        match &bg[n - 1 - i] {
                            Some(b) => {
                                if let Some(d) = diff_exact(b, &want["db"]) {
                                    rep.mismatch("C01", "network_gradient_value", &id, json!({"layer": i, "kind": kind, "bias": true, "diff": d}), case);
                                    break;
                                }
                            }
                            None => {
                                rep.mismatch("C01", "network_gradient_value", &id, json!({"layer": i, "bias": "missing"}), case);
                                break;
                            }
                        }
                    }
                }
            }
        }
    }
}

// ------------------------------------------------------------------------------------------------
// Group "flow": skip connections (C16), loop connections (C17), feedback blocks (C11)
// ------------------------------------------------------------------------------------------------

/// Builder description from a Layers-style configuration record.
pub fn desc_from_cfg(kind: &str, cfg: &Value) -> Value {
    desc_from_hp(kind, cfg)
}

fn flow_layer_desc(l: &Value) -> Value {
    let kind = str_of(l, "kind");
    if kind == "fb" {
        let inner: Vec<Value> = l["inner"].as_array().unwrap().iter().map(|i| desc_from_cfg(str_of(i, "kind"), &i["cfg"])).collect();
        json!({"kind": "feedback", "layers": inner, "loops": l["loops"], "inskips": l["inskips"], "outskips": l["outskips"], "acc": l["acc"]})
    } else {
        desc_from_cfg(kind, &l["cfg"])
    }
}

fn install_flow_params(net: &mut Network, layers: &[Value]) {
    for (layer, spec) in net.layers.iter_mut().zip(layers.iter()) {
        let kind = str_of(spec, "kind");
        if kind == "fb" {
            let inner_specs = spec["inner"].as_array().unwrap();
            let period = inner_specs.len();
            for (j, inner) in verif::inner_layers_mut(layer).iter_mut().enumerate() {
                let s = &inner_specs[j % period];
                install_params(inner, str_of(s, "kind"), &s["params"], s["cfg"]["bias"].as_bool().unwrap_or(false));
            }
        } else {
            install_params(layer, kind, &spec["params"], spec["cfg"]["bias"].as_bool().unwrap_or(false));
        }
    }
}

fn build_flow_net(case: &Value, layers: &[Value]) -> Network {
    let mut net = Network::new(shape_from(&case["input"]));
    for l in layers {
        nets::add_layer(&mut net, &flow_layer_desc(l));
    }
    install_flow_params(&mut net, layers);
    net
}

pub fn replay_flow(case: &Value, rep: &mut Report) {
    let mode = str_of(case, "mode");
    let prop = match mode {
        "skip" => "C16",
        "loop" => "C17",
        _ => "C11",
    };
    let layers: Vec<Value> = case["layers"].as_array().unwrap().clone();
    let id = format!("flow:{}:{}:{}", mode, case["cfg"], case["steps"]);
    rep.checks += 1;
    let mut net = match guarded(|| build_flow_net(case, &layers)) {
        Ok(n) => n,
        Err(e) => {
            rep.mismatch(prop, "network_rejected_by_builder", &id, json!({"panic": e}), case);
            return;
        }
    };
    rep.nontrivial(id.clone());
    // ---- the behaviour: connect / loopback calls with their contract outcome ----
    for (i, step) in case["steps"].as_array().unwrap().iter().enumerate() {
        let want = str_of(step, "outcome");
        rep.checks += 1;
        let got = match str_of(step, "op") {
            "connect" => {
                let (a, b) = (usize_of(step, "from") - 1, usize_of(step, "to") - 1);
                guarded(|| net.connect(a, b))
            }
            "loopback" => {
                let (b, a) = (usize_of(step, "outof") - 1, usize_of(step, "into") - 1);
                let scale: neurons::tensor::Scale = std::sync::Arc::new(|_x| 1.0);
                let (k, isk) = (usize_of(step, "iterations"), bool_of(step, "inskips"));
                guarded(|| net.loopback(b, a, k, scale, isk))
            }
            op => panic!("harness: unknown flow op {}", op),
        };
        match (&got, want) {
            (Ok(()), "panic") => {
                rep.mismatch(prop, "second_connection_to_same_target_accepted_replacing_the_first", &id, json!({"step": i, "call": step}), case);
                return;
            }
            (Err(e), "ok") => {
                rep.mismatch(prop, "valid_connection_rejected", &id, json!({"step": i, "call": step, "panic": e}), case);
                return;
            }
            _ => (),
        }
    }
    // ---- evaluations ----
    for eval in case["evals"].as_array().unwrap() {
        let x = spec_value_tensor(&eval["x"]);
        match mode {
            "fb" => {
                rep.checks += 1;
                match guarded(|| net.predict(&x)) {
                    Err(e) => rep.mismatch(prop, "predict_panicked", &id, json!({"panic": e, "cfg": case["cfg"]}), case),
                    Ok(y) => {
                        if let Some(d) = diff_spec_value(&y, &eval["y"]) {
                            rep.mismatch(prop, "block_output", &id, json!({"diff": d, "cfg": case["cfg"]}), case);
                        }
                    }
                }
            }
            "skip" | "loop" => {
                // vacuity guard: the accumulations must be distinguishable on this case
                let distinct: std::collections::HashSet<String> = eval["predict"].as_object().unwrap().values().map(|v| v["y"].to_string()).collect();
                if distinct.len() >= 4 {
                    rep.count("cases_with_distinct_accumulation_outputs", 1);
                }
                for (acc, pv) in eval["predict"].as_object().unwrap() {
                    if mode == "skip" {
                        net.set_accumulation(nets::accumulation(acc), nets::accumulation("mean"));
                    } else {
                        net.set_accumulation(nets::accumulation("add"), nets::accumulation(acc));
                    }
                    rep.checks += 1;
                    match guarded(|| net.predict(&x)) {
                        Err(e) => rep.mismatch(prop, "predict_panicked", &id, json!({"panic": e, "accumulation": acc}), case),
                        Ok(y) => {
                            if let Some(d) = diff_spec_value(&y, &pv["y"]) {
                                rep.mismatch(prop, "prediction", &id, json!({"diff": d, "accumulation": acc}), case);
                            }
                        }
                    }
                }
                if mode == "skip" && bool_of(eval, "kinkfree") {
                    net.set_accumulation(nets::accumulation("add"), nets::accumulation("mean"));
                    let g = spec_value_tensor(&eval["g"]);
                    rep.checks += 1;
                    let res = guarded(|| {
                        let (pre, post, max, fbs) = net.forward(&x);
                        net.verif_backward(g, &pre, &post, &max, fbs)
                    });
                    match res {
                        Err(e) => rep.mismatch(prop, "backward_panicked", &id, json!({"panic": e}), case),
                        Ok((wg, bg)) => {
                            let n = layers.len();
                            for (i, want) in eval["grads"].as_array().unwrap().iter().enumerate() {
                                if str_of(&layers[i], "kind") == "pool" {
                                    continue;
                                }
                                let mut d = diff_exact(&wg[n - 1 - i], &want["dw"]);
                                if d.is_none() && layers[i]["cfg"]["bias"].as_bool().unwrap_or(false) {
                                    d = match &bg[n - 1 - i] {
                                        Some(b) => diff_exact(b, &want["db"]),
                                        None => Some("bias gradient missing".to_string()),
                                    };
                                }
                                if let Some(d) = d {
                                    rep.mismatch(prop, "gradient_with_additive_skip", &id, json!({"layer": i, "diff": d}), case);
                                    break;
                                }
                            }
                        }
                    }
                }
                if mode == "loop" {
                    // Overwrite accumulation without input skips == the real unrolled network with the same weights
                    let step = &case["steps"][0];
                    if !bool_of(step, "inskips") {
                        let (a, b, k) = (usize_of(step, "into") - 1, usize_of(step, "outof") - 1, usize_of(step, "iterations"));
                        let mut unrolled: Vec<Value> = layers[..a].to_vec();
                        for _ in 0..=k {
                            unrolled.extend_from_slice(&layers[a..=b]);
                        }
                        unrolled.extend_from_slice(&layers[b + 1..]);
                        rep.checks += 1;
                        net.set_accumulation(nets::accumulation("add"), nets::accumulation("overwrite"));
                        match guarded(|| (build_flow_net(case, &unrolled).predict(&x), net.predict(&x))) {
                            Err(e) => rep.mismatch(prop, "unrolled_comparison_panicked", &id, json!({"panic": e}), case),
                            Ok((u, y)) => {
                                if nets::tensor_bits(&u) != nets::tensor_bits(&y) {
                                    rep.mismatch(prop, "overwrite_loop_differs_from_unrolled_network", &id, json!({"loop": flat(&y), "unrolled": flat(&u)}), case);
                                }
                            }
                        }
                    }
                }
            }
            _ => panic!("harness: unknown flow mode"),
        }
    }
}

// ------------------------------------------------------------------------------------------------
// Group "tying": feedback blocks keep their repeated layers weight-tied (C10)
// ------------------------------------------------------------------------------------------------

fn copies_equal(net: &Network, period: usize) -> Option<String> {
    for layer in net.layers.iter() {
        let inner = verif::inner_layers(layer);
        for (j, l) in inner.iter().enumerate() {
            let base = &inner[j % period];
            let (a, b) = (verif::layer_params(base), verif::layer_params(l));
            let bits = |p: &verif::Params| -> Vec<u32> {
                let mut v = Vec::new();
                if let Some(w) = &p.weights { v.extend(w.iter().flatten().map(|x| x.to_bits())); }
                if let Some(w) = &p.bias { v.extend(w.iter().map(|x| x.to_bits())); }
                if let Some(w) = &p.kernels { v.extend(w.iter().flatten().flatten().flatten().map(|x| x.to_bits())); }
                v
            };
            if bits(&a) != bits(&b) {
                return Some(format!("unrolled layer {} differs from layer {} (same position in repetition 0)", j, j % period));
            }
            if a.weights.iter().flatten().flatten().any(|x| !x.is_finite()) || a.kernels.iter().flatten().flatten().flatten().flatten().any(|x| !x.is_finite()) {
                return Some(format!("non-finite parameter in unrolled layer {}", j));
            }
        }
    }
    None
}

pub fn replay_tying(case: &Value, rep: &mut Report, rng: &mut Rng) {
    let block = case["block"].as_array().unwrap();
    let loops = usize_of(case, "loops");
    let acc = str_of(case, "acc");
    let opt = str_of(case, "optimizer");
    let (batch, steps) = (usize_of(case, "batch"), usize_of(case, "steps"));
    let id = format!("tying:{}:loops{}:{}:{}:b{}s{}", case["block"], loops, acc, opt, batch, steps);
    let spatial = block[0][0] != "dense";
    let inner: Vec<Value> = block
        .iter()
        .map(|l| match l[0].as_str().unwrap() {
            "dense" => json!({"kind": "dense", "out": l[1], "act": "tanh", "bias": l[2]}),
            k => json!({"kind": k, "filters": l[1], "kernel": [3, 3], "stride": [1, 1], "padding": [1, 1], "act": "tanh"}),
        })
        .collect();
    let width = if spatial { 16 } else { block[0][1].as_u64().unwrap() as usize };
    let optimizer = match opt {
        "sgd" => json!({"kind": "sgd", "lr": 0.0625}),
        "sgdm" => json!({"kind": "sgdm", "lr": 0.0625, "momentum": 0.5}),
        "adam" => json!({"kind": "adam", "lr": 0.01}),
        "adamw" => json!({"kind": "adamw", "lr": 0.01, "decay": 0.01}),
        _ => json!({"kind": "rmsprop", "lr": 0.01, "alpha": 0.9, "momentum": 0.5, "centered": true}),
    };
    let arch = json!({"input": if spatial { json!([1, 4, 4]) } else { json!([width]) }, "out": 2, "ints": false,
        "layers": [{"kind": "feedback", "layers": inner, "loops": loops, "acc": acc}, {"kind": "dense", "out": 2, "act": "linear", "bias": false}],
        "objective": {"kind": "mse"}, "optimizer": optimizer});
    rep.checks += 3;
    rep.nontrivial(id.clone());
    let mut net = match guarded(|| nets::build(&arch)) {
        Ok(n) => n,
        Err(e) => {
            rep.mismatch("C10", "block_rejected", &id, json!({"panic": e}), case);
            return;
        }
    };
    let period = block.len();
    // created as identical clones
    if let Some(d) = copies_equal(&net, period) {
        rep.mismatch("C10", "copies_differ_at_creation", &id, json!({"diff": d}), case);
        return;
    }
    // the reported parameter count counts each shared parameter once
    let want = usize_of(case, "count") + width * 2;
    match parameters_line(&net) {
        Some(n) if n == want => (),
        other => {
            rep.mismatch("C10", "parameter_count", &id, json!({"expected": want, "reported": other}), case);
        }
    }
    nets::randomize_floats(&mut net, &arch, rng, 0.6);
    let data = crate::training::arch_dataset(&arch, 3, rng);
    let xr: Vec<&Tensor> = data.inputs.iter().collect();
    let yr: Vec<&Tensor> = data.targets.iter().collect();
    match guarded(|| net.learn(&xr, &yr, None, batch, steps as i32, None)) {
        Err(e) => rep.mismatch("C10", "training_panicked", &id, json!({"panic": e, "acc": acc, "block": case["block"]}), case),
        Ok(_) => {
            if let Some(d) = copies_equal(&net, period) {
                rep.mismatch("C10", "copies_differ_after_training", &id, json!({"diff": d}), case);
            }
        }
    }
}
