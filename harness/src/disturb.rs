//! "Other library activity" for the tensor state machines (C14 / C15): the reshape / arithmetic contract of a tensor
//! does not depend on what else the library has been doing -- a training run that completed, one that aborted with a
//! panic half-way (a NaN sample), a validation pass, batch prediction, or a training run in progress on another
//! thread.  The trace specifications treat the logged `Other` event as a stuttering step.

use crate::nets;
use crate::util::*;
use neurons::tensor::Tensor;
use serde_json::{json, Value};
use std::sync::atomic::{AtomicBool, Ordering};
use std::sync::Arc;

pub const KINDS: [&str; 5] = ["learn", "aborted_learn", "validate", "predict_batch", "concurrent_learn"];

fn small_net() -> (Value, neurons::network::Network) {
    let arch = json!({"input": [1, 4, 4],
                      "layers": [{"kind": "conv", "filters": 2, "kernel": [2, 2], "stride": [1, 1], "padding": [0, 0], "act": "relu", "dropout": 0.25},
                                 {"kind": "pool", "kernel": [2, 2], "stride": [1, 1]},
                                 {"kind": "dense", "out": 8, "act": "tanh", "bias": false},
                                 {"kind": "feedback", "loops": 2, "acc": "mean",
                                  "layers": [{"kind": "dense", "out": 8, "act": "tanh", "bias": true}]},
                                 {"kind": "dense", "out": 2, "act": "softmax", "bias": true}],
                      "objective": {"kind": "crossentropy"}, "optimizer": {"kind": "adam", "lr": 0.01}});
    let net = nets::build(&arch);
    (arch, net)
}

fn data(n: usize, nan_at: Option<usize>) -> (Vec<Tensor>, Vec<Tensor>) {
    let mut xs = Vec::new();
    let mut ys = Vec::new();
    for s in 0..n {
        let v: Vec<f32> = (0..16).map(|i| (((s * 7 + i * 3) % 11) as f32 - 5.0) / 4.0).collect();
        xs.push(crate::tensors::triple_rowmajor(&[1, 4, 4], &v));
        // (a NaN in the TARGET: the loss of that sample is NaN whatever the activations do with a NaN input)
        ys.push(if nan_at == Some(s) { Tensor::single(vec![f32::NAN, 1.0]) } else { Tensor::one_hot(s % 2, 2) });
    }
    (xs, ys)
}

/// One piece of library activity; panics inside are caught (an aborted run is the point of `aborted_learn`).
/// Returns whether the activity ended the way it is meant to (completed; aborted for `aborted_learn`).
pub fn run(kind: &str) -> bool {
    let res = guarded(|| {
        let (_, mut net) = small_net();
        let (xs, ys) = data(6, if kind == "aborted_learn" { Some(4) } else { None });
        let (xr, yr): (Vec<&Tensor>, Vec<&Tensor>) = (xs.iter().collect(), ys.iter().collect());
        match kind {
            "learn" | "aborted_learn" | "concurrent_learn" => {
                net.learn(&xr, &yr, Some((&xr, &yr, 2)), 4, 2, None);
            }
            "validate" => {
                net.validate(&xr, &yr, 1e-6);
            }
            _ => {
                net.predict_batch(&xr);
            }
        }
    });
    res.is_err() == (kind == "aborted_learn")
}

/// A training run kept going on another thread until the guard is dropped.
pub struct Background {
    stop: Arc<AtomicBool>,
    handle: Option<std::thread::JoinHandle<()>>,
}
impl Background {
    pub fn start() -> Self {
        let stop = Arc::new(AtomicBool::new(false));
        let flag = stop.clone();
        let handle = std::thread::spawn(move || {
            while !flag.load(Ordering::Relaxed) {
                run("concurrent_learn");
            }
        });
        // let the first run get going
        std::thread::sleep(std::time::Duration::from_millis(2));
        Background { stop, handle: Some(handle) }
    }
}
impl Drop for Background {
    fn drop(&mut self) {
        self.stop.store(true, Ordering::Relaxed);
        if let Some(h) = self.handle.take() {
            let _ = h.join();
        }
    }
}

/// Logged form: the abstract state does not change.
pub fn event(kind: &str) -> Value {
    json!({"event": "Other", "activity": kind})
}
