---------------------------- MODULE Tensor ----------------------------
(***************************************************************************)
(* Exact-mode tensors of the `neurons` library.                            *)
(*                                                                         *)
(* A tensor is a record [shape |-> <<d1,..,dr>>, data |-> nested 1-based   *)
(* sequences of integers].  Rank 1 is `Single`, rank 2 `Double`, rank 3    *)
(* `Triple` (channels x height x width), rank 4 `Quadruple`.               *)
(* Everything here is integer valued: on integers of magnitude < 2^24 the  *)
(* implementation's f32 arithmetic is exact, so these operators are a      *)
(* bit-exact oracle for src/tensor.rs.                                     *)
(***************************************************************************)
EXTENDS Integers, Sequences, FiniteSets, Folds, Functions, TLC

\* ---------- sums -------------------------------------------------------
SumSeq(s) == FoldFunction(LAMBDA a, b : a + b, 0, s)
SumF(f)   == FoldFunction(LAMBDA a, b : a + b, 0, f)
Prod(s)   == FoldFunction(LAMBDA a, b : a * b, 1, s)

Abs(x) == IF x < 0 THEN -x ELSE x
Max2(a, b) == IF a >= b THEN a ELSE b
Min2(a, b) == IF a <= b THEN a ELSE b

\* small seeded integers in -3..3 used as parameters / inputs of the bounded instances
Val(seed, i) == ((seed * 7919 + i * 104729 + i * i * 31) % 7) - 3

\* ---------- shapes ------------------------------------------------------
Count(shape) == Prod(shape)

\* ---------- row-major views ----------------------------------------------
\* Row-major element sequence of a rank-3 nested sequence.
Flat3(t) ==
  LET c == Len(t)  h == Len(t[1])  w == Len(t[1][1])
  IN  TLCEval([n \in 1..(c*h*w) |->
         t[((n-1) \div (h*w)) + 1][(((n-1) % (h*w)) \div w) + 1][((n-1) % w) + 1]])

Flat2(t) ==
  LET r == Len(t)  c == Len(t[1])
  IN  TLCEval([n \in 1..(r*c) |-> t[((n-1) \div c) + 1][((n-1) % c) + 1]])

\* Rank-3 nested sequence with the given dimensions whose row-major sequence is v.
Unflat3(v, c, h, w) ==
  TLCEval([i \in 1..c |-> TLCEval([j \in 1..h |-> TLCEval([k \in 1..w |-> v[((i-1)*h + (j-1))*w + k]])])])

Dims3(t) == <<Len(t), Len(t[1]), Len(t[1][1])>>

\* Row-major sequence of a tensor record of rank 1 or 3 (what `get_flat` returns).
GetFlat(T) == IF Len(T.shape) = 1 THEN T.data ELSE Flat3(T.data)

Single(v)  == [shape |-> <<Len(v)>>, data |-> v]
Triple(t)  == [shape |-> Dims3(t), data |-> t]

\* `Tensor::flatten`: rank 3 -> rank 1 (rank 1 unchanged).
Flatten(T) == Single(GetFlat(T))

\* `Tensor::reshape` is defined (does not panic) for these shape pairs.
ReshapeDefined(from, to) ==
  /\ Len(from) \in {1, 3} /\ Len(to) \in {1, 3}
  /\ \/ Len(from) = 1 /\ Len(to) = 1        \* Single -> Single: returned unchanged (the code does not compare counts)
     \/ Count(from) = Count(to)

\* Result of `reshape` when defined.
Reshape(T, to) ==
  IF Len(T.shape) = 1 /\ Len(to) = 1 THEN T
  ELSE IF Len(to) = 1 THEN Flatten(T)
  ELSE [shape |-> to, data |-> Unflat3(GetFlat(T), to[1], to[2], to[3])]

\* `get_triple(shape)`: a rank-1 tensor read as c x h x w; a rank-3 tensor as is.
GetTriple(T, shape) ==
  IF Len(T.shape) = 1 THEN Unflat3(T.data, shape[1], shape[2], shape[3]) ELSE T.data

\* ---------- element-wise maps (ranks 1..4 on nested sequences) ---------------
Map1(Op(_, _), a, b) == TLCEval([i \in 1..Len(a) |-> Op(a[i], b[i])])
Map2(Op(_, _), a, b) == TLCEval([i \in 1..Len(a) |-> Map1(Op, a[i], b[i])])
Map3(Op(_, _), a, b) == TLCEval([i \in 1..Len(a) |-> Map2(Op, a[i], b[i])])
Map4(Op(_, _), a, b) == TLCEval([i \in 1..Len(a) |-> Map3(Op, a[i], b[i])])

MapR(Op(_, _), rank, a, b) ==
  CASE rank = 1 -> Map1(Op, a, b)
    [] rank = 2 -> Map2(Op, a, b)
    [] rank = 3 -> Map3(Op, a, b)
    [] rank = 4 -> Map4(Op, a, b)

Un1(Op(_), a) == TLCEval([i \in 1..Len(a) |-> Op(a[i])])
Un2(Op(_), a) == TLCEval([i \in 1..Len(a) |-> Un1(Op, a[i])])
Un3(Op(_), a) == TLCEval([i \in 1..Len(a) |-> Un2(Op, a[i])])
Un4(Op(_), a) == TLCEval([i \in 1..Len(a) |-> Un3(Op, a[i])])
UnR(Op(_), rank, a) ==
  CASE rank = 1 -> Un1(Op, a)
    [] rank = 2 -> Un2(Op, a)
    [] rank = 3 -> Un3(Op, a)
    [] rank = 4 -> Un4(Op, a)

Add(a, b) == a + b
Sub(a, b) == a - b
Mul(a, b) == a * b

\* Flat row-major view of a nested sequence of the given rank.
FlatR(rank, a) ==
  CASE rank = 1 -> a
    [] rank = 2 -> Flat2(a)
    [] rank = 3 -> Flat3(a)
    [] rank = 4 -> LET n == Len(a) m == Len(Flat3(a[1]))
                   IN TLCEval([k \in 1..(n*m) |-> Flat3(a[((k-1) \div m) + 1])[((k-1) % m) + 1]])

\* ---------- linear algebra ------------------------------------------------
\* `dot`: matrix (rows x cols) times vector.
Dot(W, x) == TLCEval([i \in 1..Len(W) |-> SumF(TLCEval([j \in 1..Len(x) |-> W[i][j] * x[j]]))])
\* `product`: outer product a b^T.
Outer(a, b) == TLCEval([i \in 1..Len(a) |-> TLCEval([j \in 1..Len(b) |-> a[i] * b[j]])])
Transpose(W) == TLCEval([j \in 1..Len(W[1]) |-> TLCEval([i \in 1..Len(W) |-> W[i][j]])])
Clamp(x, lo, hi) == Max2(lo, Min2(hi, x))

\* Index (1-based) of the maximum; the implementation's `max_by` returns the LAST maximal element.
ArgMax(v) == CHOOSE i \in 1..Len(v) : (\A j \in 1..Len(v) : v[j] <= v[i]) /\ (\A j \in (i+1)..Len(v) : v[j] < v[i])

\* Zero-padded read of a rank-3 nested sequence (1-based, out of range reads 0).
At3(t, c, i, j) == IF i \in 1..Len(t[c]) /\ j \in 1..Len(t[c][1]) THEN t[c][i][j] ELSE 0

=============================================================================
