---------------------------- MODULE Training ----------------------------
(***************************************************************************)
(* Process-level model of Network::learn / validate / predict_batch        *)
(* (src/network.rs): epochs, consecutive mini-batches, parallel per-sample *)
(* forward/backward tasks, in-order reduction, one optimizer step per      *)
(* batch (step number = epoch), per-epoch validation with training-flag    *)
(* switching, early stopping, returned histories.                          *)
(*                                                                         *)
(* Numeric content is abstract: the gradient of sample s at weights        *)
(* version v is the uninterpreted term [s |-> s, v |-> v]; sums are kept   *)
(* as ORDERED sequences (float addition is not associative), the weights   *)
(* are the sequence of updates applied so far.  This is what C04 / C05 /   *)
(* C09 / C12 / C13 talk about: order, grouping, step numbers, flags,       *)
(* histories -- not arithmetic.                                            *)
(*                                                                         *)
(* One action per critical section / phase boundary of the code:           *)
(*   LearnBegin, BatchBegin, SampleStart(s), SampleDone(s), Reduce,        *)
(*   Update, EpochEnd, ValidateEnter, ValidateChunk(c), ValidateExit,      *)
(*   ValPush(v), StopCheck, LearnEnd, UserValidate.                        *)
(***************************************************************************)
EXTENDS Integers, Sequences, FiniteSets, TLC

CONSTANTS Configs    \* set of run parameters [n, b, e, hasval, tol, nval, chunk, workers, flagged, vals]
                     \*   n samples, b batch size, e epoch budget, hasval, tol(erance), nval validation samples,
                     \*   chunk = parallel chunk size of validate, workers = pool size,
                     \*   flagged = <<BOOLEAN,...>> which layer positions own a training flag,
                     \*   vals = set of abstract validation-loss values the environment may produce

VARIABLES
  P,          \* parameters of the current run
  pc,         \* control state
  epoch, bi,  \* current epoch (1-based), current batch index (1-based)
  started,    \* samples of the current batch whose task has started
  finished,   \* samples of the current batch whose task has completed, in COMPLETION order
  red,        \* how many per-sample results of the batch have been reduced
  accG,       \* ordered sum of gradient terms reduced so far
  accL,       \* ordered list of per-sample loss terms reduced so far
  w,          \* weights = sequence of applied updates [step, grads]
  elog,       \* per-batch loss lists of the running epoch
  trainLoss, valLoss, valAcc,   \* the three histories learn returns
  flags,      \* per layer position: training flag
  saved,      \* validate: was any flag on when it was entered
  caller,     \* who called validate: "learn" | "user"
  vpend,      \* validate: chunks not yet evaluated
  vseen       \* validate: flags seen by each evaluated chunk (for NoLeak)

vars == <<P, pc, epoch, bi, started, finished, red, accG, accL, w, elog, trainLoss, valLoss, valAcc,
          flags, saved, caller, vpend, vseen>>

\* ---------- derived -------------------------------------------------------------
Min(a, b) == IF a <= b THEN a ELSE b
NB(p)        == (p.n + p.b - 1) \div p.b                      \* number of batches; the last may be smaller
First(p, k)  == (k - 1) * p.b + 1
Last(p, k)   == Min(k * p.b, p.n)
BatchOf(p, k) == First(p, k)..Last(p, k)
BatchLen(p, k) == Last(p, k) - First(p, k) + 1
NChunks(p)   == (p.nval + p.chunk - 1) \div p.chunk
AllOff(p)    == [i \in 1..Len(p.flagged) |-> FALSE]
AllOn(p)     == p.flagged                                      \* "on" = every layer that owns a flag has it set
Version      == Len(w)                                         \* number of updates applied so far

\* The last `tol` recorded validation losses are strictly increasing (tol - 1 comparisons).
Increasing(h, tol) == \A i \in (Len(h) - tol + 1)..(Len(h) - 1) : i >= 1 /\ h[i] < h[i + 1]
StopNow == P.hasval /\ epoch > P.tol /\ Len(valLoss) >= P.tol /\ Increasing(valLoss, P.tol)

\* ---------- initial state ----------------------------------------------------------
Init ==
  /\ P \in Configs
  /\ pc = "idle" /\ epoch = 0 /\ bi = 0
  /\ started = {} /\ finished = <<>> /\ red = 0 /\ accG = <<>> /\ accL = <<>>
  /\ w = <<>> /\ elog = <<>> /\ trainLoss = <<>> /\ valLoss = <<>> /\ valAcc = <<>>
  /\ flags = AllOff(P) /\ saved = FALSE /\ caller = "none" /\ vpend = {} /\ vseen = {}

\* ---------- learn --------------------------------------------------------------------
LearnBegin ==
  /\ pc = "idle"
  /\ flags' = AllOn(P)
  \* an epoch budget of zero is a legal call: the flags are switched on and straight off again, nothing else happens
  /\ IF P.e >= 1 THEN epoch' = 1 /\ bi' = 1 /\ pc' = "batch" ELSE epoch' = 0 /\ bi' = 0 /\ pc' = "end"
  /\ trainLoss' = <<>> /\ valLoss' = <<>> /\ valAcc' = <<>> /\ elog' = <<>>
  /\ UNCHANGED <<P, started, finished, red, accG, accL, w, saved, caller, vpend, vseen>>

BatchBegin ==
  /\ pc = "batch"
  /\ started' = {} /\ finished' = <<>> /\ pc' = "samples"
  /\ red' = 0 /\ accG' = <<>> /\ accL' = <<>>
  /\ UNCHANGED <<P, epoch, bi, w, elog, trainLoss, valLoss, valAcc, flags, saved, caller, vpend, vseen>>

Running == started \ {finished[i] : i \in 1..Len(finished)}

\* A worker picks up the task of sample s (any not-yet-started sample of the batch, any free worker).
SampleStart(s) ==
  /\ pc = "samples" /\ s \in BatchOf(P, bi) \ started
  /\ Cardinality(Running) < P.workers
  /\ started' = started \cup {s}
  /\ UNCHANGED <<P, pc, epoch, bi, finished, red, accG, accL, w, elog, trainLoss, valLoss, valAcc, flags, saved, caller, vpend, vseen>>

\* The task of sample s completes (forward, loss, backward at the weights version of this batch).
SampleDone(s) ==
  /\ pc = "samples" /\ s \in Running
  /\ finished' = Append(finished, s)
  /\ UNCHANGED <<P, pc, epoch, bi, started, red, accG, accL, w, elog, trainLoss, valLoss, valAcc, flags, saved, caller, vpend, vseen>>

\* The calling thread adds the results in INDEX order, whatever the completion order.  The implementation waits for
\* the whole group (rayon's indexed collect) before it adds the first result; the model only demands what the
\* property needs -- the next result in index order must be available -- so an implementation that adds results
\* while later tasks of the group still run (e.g. slice by slice) is a behaviour of this model too.
Done == {finished[i] : i \in 1..Len(finished)}
Reduce ==
  /\ pc = "samples" /\ red < BatchLen(P, bi)
  /\ LET s == First(P, bi) + red IN
     /\ s \in Done
     /\ accG' = Append(accG, [s |-> s, v |-> Version])
     /\ accL' = Append(accL, s)
  /\ red' = red + 1
  /\ pc' = IF red' = BatchLen(P, bi) THEN "update" ELSE "samples"
  /\ UNCHANGED <<P, epoch, bi, started, finished, w, elog, trainLoss, valLoss, valAcc, flags, saved, caller, vpend, vseen>>

\* One optimizer step on the summed gradients; step number = epoch.
Update ==
  /\ pc = "update"
  /\ w' = Append(w, [step |-> epoch, grads |-> accG])
  /\ elog' = Append(elog, accL)
  /\ started' = {} /\ finished' = <<>>
  /\ IF bi < NB(P) THEN bi' = bi + 1 /\ pc' = "batch" ELSE bi' = bi /\ pc' = "epochend"
  /\ UNCHANGED <<P, epoch, red, accG, accL, trainLoss, valLoss, valAcc, flags, saved, caller, vpend, vseen>>

\* The epoch's training loss: mean over its batches of the mean per-sample loss (kept as the nested list).
EpochEnd ==
  /\ pc = "epochend"
  /\ trainLoss' = Append(trainLoss, elog) /\ elog' = <<>>
  /\ IF P.hasval THEN pc' = "venter" /\ caller' = "learn" ELSE pc' = "stopcheck" /\ caller' = caller
  /\ UNCHANGED <<P, epoch, bi, started, finished, red, accG, accL, w, valLoss, valAcc, flags, saved, vpend, vseen>>

\* ---------- validate ---------------------------------------------------------------------
\* Entry: remember whether training was on, clear EVERY flag.
ValidateEnter ==
  /\ pc = "venter"
  /\ saved' = (\E i \in 1..Len(flags) : flags[i])
  /\ flags' = AllOff(P)
  /\ vpend' = 1..NChunks(P) /\ vseen' = {}
  /\ pc' = "vmap"
  /\ UNCHANGED <<P, epoch, bi, started, finished, red, accG, accL, w, elog, trainLoss, valLoss, valAcc, caller>>

\* Chunks are evaluated in parallel, in any order; results are collected by chunk index.
ValidateChunk(c) ==
  /\ pc = "vmap" /\ c \in vpend
  /\ vpend' = vpend \ {c}
  /\ vseen' = vseen \cup {flags}
  /\ UNCHANGED <<P, pc, epoch, bi, started, finished, red, accG, accL, w, elog, trainLoss, valLoss, valAcc, flags, saved, caller>>

\* Exit: restore the flags iff training was on at entry.
ValidateExit ==
  /\ pc = "vmap" /\ vpend = {}
  /\ flags' = IF saved THEN AllOn(P) ELSE flags
  /\ pc' = IF caller = "learn" THEN "vpush" ELSE "vdone"
  /\ UNCHANGED <<P, epoch, bi, started, finished, red, accG, accL, w, elog, trainLoss, valLoss, valAcc, saved, caller, vpend, vseen>>

\* learn records the validation loss and accuracy of this epoch (the value is the environment's choice).
ValPush(v) ==
  /\ pc = "vpush"
  /\ valLoss' = Append(valLoss, v)
  /\ valAcc' = Append(valAcc, Version)          \* which weights the metrics belong to
  /\ pc' = "stopcheck"
  /\ UNCHANGED <<P, epoch, bi, started, finished, red, accG, accL, w, elog, trainLoss, flags, saved, caller, vpend, vseen>>

\* ---------- early stopping ------------------------------------------------------------------
StopCheck ==
  /\ pc = "stopcheck"
  /\ IF StopNow THEN pc' = "end" /\ UNCHANGED <<epoch, bi>>
     ELSE IF epoch < P.e THEN epoch' = epoch + 1 /\ bi' = 1 /\ pc' = "batch"
     ELSE pc' = "end" /\ UNCHANGED <<epoch, bi>>
  /\ UNCHANGED <<P, started, finished, red, accG, accL, w, elog, trainLoss, valLoss, valAcc, flags, saved, caller, vpend, vseen>>

LearnEnd ==
  /\ pc = "end"
  /\ flags' = AllOff(P)
  /\ pc' = "done"
  /\ UNCHANGED <<P, epoch, bi, started, finished, red, accG, accL, w, elog, trainLoss, valLoss, valAcc, saved, caller, vpend, vseen>>

\* A user calls validate on an idle (or trained) network.
UserValidate ==
  /\ pc \in {"idle", "done"} /\ P.nval > 0 /\ caller # "user"
  /\ caller' = "user" /\ pc' = "venter"
  /\ UNCHANGED <<P, epoch, bi, started, finished, red, accG, accL, w, elog, trainLoss, valLoss, valAcc, flags, saved, vpend, vseen>>

Next ==
  \/ LearnBegin \/ BatchBegin
  \/ \E s \in 1..P.n : SampleStart(s) \/ SampleDone(s)
  \/ Reduce \/ Update \/ EpochEnd
  \/ ValidateEnter \/ (\E c \in 1..NChunks(P) : ValidateChunk(c)) \/ ValidateExit
  \/ (\E v \in P.vals : ValPush(v))
  \/ StopCheck \/ LearnEnd

Spec == Init /\ [][Next]_vars

\* =====================================================================================
\* Properties
\* =====================================================================================

\* ---- C04: ordered mini-batch gradient-sum descent ---------------------------------------
\* Schedule-free reference: consecutive groups of b, one step per group on the sum (in sample order) of the
\* per-sample gradients at the version before the step, step number = epoch.
RefUpdate(p, e, k) ==
  [step |-> e, grads |-> [j \in 1..BatchLen(p, k) |-> [s |-> First(p, k) + j - 1, v |-> (e - 1) * NB(p) + (k - 1)]]]
RefW(p, epochs) == [i \in 1..(epochs * NB(p)) |-> RefUpdate(p, ((i - 1) \div NB(p)) + 1, ((i - 1) % NB(p)) + 1)]
RefLoss(p, epochs) == [e \in 1..epochs |-> [k \in 1..NB(p) |-> [j \in 1..BatchLen(p, k) |-> First(p, k) + j - 1]]]

DescentOK ==
  pc = "done" => /\ w = RefW(P, Len(trainLoss))
                 /\ trainLoss = RefLoss(P, Len(trainLoss))
\* at every moment the applied updates are a prefix of the reference
PrefixOK == \A i \in 1..Len(w) : w[i] = RefUpdate(P, ((i - 1) \div NB(P)) + 1, ((i - 1) % NB(P)) + 1)
\* every sample contributes exactly once per epoch
ExactlyOnce ==
  \A e \in 1..Len(trainLoss) : \A s \in 1..P.n :
     Cardinality({<<k, j>> \in (1..Len(trainLoss[e])) \X (1..P.b) :
                    j <= Len(trainLoss[e][k]) /\ trainLoss[e][k][j] = s}) = 1

\* ---- C05: independence of the schedule -------------------------------------------------------
\* The reduced sum of a batch depends only on the batch, never on the completion order.
ReduceIgnoresSchedule ==
  pc = "update" => accG = RefUpdate(P, epoch, bi).grads
\* (DescentOK holding in EVERY terminal state of every interleaving is the schedule-independence theorem.)

\* ---- C09: dropout flags --------------------------------------------------------------------
NoLeak ==
  /\ pc = "vmap" => flags = AllOff(P)
  /\ \A f \in vseen : f = AllOff(P)
  /\ pc \in {"done", "vdone"} => flags = AllOff(P)
  /\ pc \in {"samples", "update"} => flags = AllOn(P)
\* validate leaves the flags as it found them
ValidateRestores == [][pc = "vmap" /\ pc' # "vmap" => flags' = (IF saved THEN AllOn(P) ELSE AllOff(P))]_vars

\* ---- C13: histories and early stopping ---------------------------------------------------------
StopHeldAt(e) == P.hasval /\ e > P.tol /\ e <= Len(valLoss) /\ Increasing(SubSeq(valLoss, 1, e), P.tol)
HistoriesOK ==
  pc = "done" =>
    LET ran == Len(trainLoss) IN
    /\ (P.e >= 1 => ran >= 1) /\ ran <= P.e
    /\ Len(valLoss) = (IF P.hasval THEN ran ELSE 0)
    /\ Len(valAcc) = Len(valLoss)
    /\ ran < P.e => StopHeldAt(ran)                 \* stops early only if the condition holds ...
    /\ \A e \in 1..(ran - 1) : ~StopHeldAt(e)       \* ... and never runs past the first epoch where it holds
    /\ ~P.hasval => ran = P.e
\* validation metrics of epoch e belong to the weights after all updates of epoch e
ValOfRightWeights == \A e \in 1..Len(valAcc) : valAcc[e] = e * NB(P)

TypeOK ==
  /\ pc \in {"idle", "batch", "samples", "update", "epochend", "venter", "vmap", "vpush", "stopcheck", "end", "done", "vdone"}
  /\ red \in 0..P.b
=============================================================================
