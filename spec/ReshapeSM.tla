---------------------------- MODULE ReshapeSM ----------------------------
(***************************************************************************)
(* State machine of a tensor value under the shape-changing operations of  *)
(* src/tensor.rs: `reshape`, `flatten`, `get_flat`, `get_triple`.  The abstract state is *)
(* the tensor record (shape + nested data).  The data are element          *)
(* identities 1..n, so "row-major order and element count are preserved"   *)
(* is literally `GetFlat(T) = <<1,..,n>>`.  (C14)                          *)
(***************************************************************************)
EXTENDS Tensor, TLC

CONSTANTS MaxDim,      \* dimensions range over 1..MaxDim
          MaxCount,    \* only shapes with at most this many elements
          Depth,       \* number of operations per behaviour
          WithViews    \* list the 3-D readings (get_triple) of every reached tensor (off in the trace specification)

VARIABLES T,           \* current tensor
          start,       \* shape the behaviour started from
          hist         \* operations applied so far, with the outcome the specification allows

vars == <<T, start, hist>>

Shapes1 == {<<n>> : n \in 1..MaxCount}
Shapes3 == {s \in (1..MaxDim) \X (1..MaxDim) \X (1..MaxDim) : s[1]*s[2]*s[3] <= MaxCount}
Shapes  == Shapes1 \cup Shapes3

Identity(shape) ==
  IF Len(shape) = 1 THEN Single([i \in 1..shape[1] |-> i])
  ELSE [shape |-> shape, data |-> Unflat3([i \in 1..Count(shape) |-> i], shape[1], shape[2], shape[3])]

\* get_triple(shape): the 3-D readings a tensor offers -- a vector can be read as any 3-D shape with its element
\* count (row-major: flattening the reading gives the vector back), a 3-D tensor reads as itself
ViewsOf(t) == IF ~WithViews THEN {} ELSE IF Len(t.shape) = 1 THEN {s \in Shapes3 : Count(s) = Count(t.shape)} ELSE {t.shape}

\* Tensors WITHOUT elements (an empty vector, 3-D tensors whose rows are empty) as starting points: whatever non-empty
\* shape is asked for has a different element count, so a vector <-> 3-D or 3-D <-> 3-D reshape is refused and invents
\* nothing (and the lenient vector -> vector arm hands the empty vector back).  Flattening them and reshaping them to
\* another EMPTY shape is left out of the model (the statement says nothing a zero-element tensor could violate there).
EmptyShapes == {<<0>>, <<2, 2, 0>>, <<1, 3, 0>>}

Init == /\ \E s \in Shapes \cup EmptyShapes : T = Identity(s) /\ start = s
        /\ hist = <<>>

\* reshape(to): refused (panic, tensor consumed -> behaviour ends) unless ReshapeDefined.
DoReshape(to) ==
  /\ Len(hist) < Depth
  /\ UNCHANGED start
  /\ IF ReshapeDefined(T.shape, to)
       THEN /\ T' = Reshape(T, to)
            /\ hist' = Append(hist, [op |-> "reshape", from |-> T.shape, to |-> to, outcome |-> "ok",
                                     shape |-> T'.shape, flat |-> GetFlat(T'), views |-> ViewsOf(T')])
       ELSE /\ T' = T
            /\ hist' = Append(hist, [op |-> "reshape", from |-> T.shape, to |-> to, outcome |-> "panic",
                                     shape |-> T.shape, flat |-> GetFlat(T), views |-> {}])

DoFlatten ==
  /\ Len(hist) < Depth /\ Count(T.shape) > 0
  /\ UNCHANGED start
  /\ T' = Flatten(T)
  /\ hist' = Append(hist, [op |-> "flatten", from |-> T.shape, to |-> <<>>, outcome |-> "ok",
                           shape |-> T'.shape, flat |-> GetFlat(T'), views |-> ViewsOf(T')])

Next == (\E to \in Shapes : DoReshape(to)) \/ DoFlatten

Spec == Init /\ [][Next]_vars

\* ----- properties (C14) ---------------------------------------------------
\* The row-major element sequence and the element count never change.
RowMajorPreserved == GetFlat(T) = [i \in 1..Count(T.shape) |-> i]
\* The recorded shape matches the data.
ShapeMatchesData ==
  IF Len(T.shape) = 1 THEN Len(T.data) = T.shape[1]
  ELSE Dims3(T.data) = T.shape
\* The element count never changes along a behaviour.
CountPreserved == [][Count(T'.shape) = Count(T.shape)]_vars
\* A reshape between vector/3-D shapes with different counts is refused.
RefusedIffCountsDiffer ==
  \A i \in 1..Len(hist) :
     hist[i].op = "reshape" /\ ~(Len(hist[i].from) = 1 /\ Len(hist[i].to) = 1) =>
        ((hist[i].outcome = "panic") <=> (Count(hist[i].from) # Count(hist[i].to)))
\* There and back is the identity.
RoundTrip ==
  \A a \in Shapes : ReshapeDefined(T.shape, a) /\ ReshapeDefined(a, T.shape) /\ ~(Len(a) = 1 /\ Len(T.shape) = 1 /\ a # T.shape)
        => Reshape(Reshape(T, a), T.shape) = T
=============================================================================
