---------------------------- MODULE ArithSM ----------------------------
(***************************************************************************)
(* State machine of a tensor accumulator under the element-wise in-place   *)
(* arithmetic of src/tensor.rs (C15): add_inplace, sub_inplace,            *)
(* mul_inplace, hadamard(other, scalar), div_scalar_inplace, mean_inplace. *)
(* A tensor is [rank |-> 1..4, data |-> nested sequence] or a nested list  *)
(* [rank |-> 0, parts |-> <<tensor, ...>>].  All values are small integers *)
(* so IEEE single precision is exact; a division produces exact rationals  *)
(* [n |-> numerator, d |-> divisor] (one correctly rounded IEEE division)  *)
(* and ends the behaviour.                                                 *)
(***************************************************************************)
EXTENDS Tensor, TLC

CONSTANTS MaxDim,    \* dimensions range over 1..MaxDim
          Depth,     \* integer operations per behaviour (a division/mean may follow as the last one)
          Seeds      \* data seeds

VARIABLES acc, start, hist, final
vars == <<acc, start, hist, final>>


UnflatR(rank, v, s) ==
  CASE rank = 1 -> [i \in 1..s[1] |-> v[i]]
    [] rank = 2 -> [i \in 1..s[1] |-> [j \in 1..s[2] |-> v[(i-1)*s[2] + j]]]
    [] rank = 3 -> Unflat3(v, s[1], s[2], s[3])
    [] rank = 4 -> [f \in 1..s[1] |-> Unflat3([n \in 1..(s[2]*s[3]*s[4]) |-> v[(f-1)*s[2]*s[3]*s[4] + n]], s[2], s[3], s[4])]

DimsR(rank, a) ==
  CASE rank = 1 -> <<Len(a)>>
    [] rank = 2 -> <<Len(a), Len(a[1])>>
    [] rank = 3 -> <<Len(a), Len(a[1]), Len(a[1][1])>>
    [] rank = 4 -> <<Len(a), Len(a[1]), Len(a[1][1]), Len(a[1][1][1])>>

ShapesOf(rank) == [1..rank -> 1..(IF rank = 4 /\ MaxDim > 2 THEN 2 ELSE MaxDim)]   \* tuples; rank 4 capped at 2 per axis to bound the search

Mk(shape, seed) ==
  LET rank == Len(shape) n == Count(shape)
  IN [rank |-> rank, data |-> UnflatR(rank, [i \in 1..n |-> Val(seed, i)], shape)]

MkNested(shapes, seed) == [rank |-> 0, parts |-> [k \in 1..Len(shapes) |-> Mk(shapes[k], seed + k)]]
\* a list of lists (depth two): the element-wise contract and the refusal of unequal shapes hold at EVERY level
MkNested2(seed, last) == [rank |-> 0, parts |-> <<MkNested(<<<<2>>, <<1, 2>>>>, seed), MkNested(<<<<last>>>>, seed + 3)>>]
IsDeep(t) == t.rank = 0 /\ t.parts[1].rank = 0
\* lists with optional entries (rank -1; the bias gradients of a feedback block): an absent entry is NoTensor
NoTensor == [rank |-> -2]
MkOptional(pattern, seed) ==
  [rank |-> -1, parts |-> [k \in 1..Len(pattern) |-> IF pattern[k] THEN Mk(<<2>>, seed + k) ELSE NoTensor]]

\* The shape the implementation records: dimensions for ranks 1..4, Nested(len) for nested lists.
\* For a list: its length AND the shapes of its entries (an addition of lists is element-wise on every entry).
RECURSIVE ShapeOf(_)
ShapeOf(t) ==
  IF t.rank = -2 THEN <<-1>>
  ELSE IF t.rank \in {0, -1} THEN <<"nested", [k \in 1..Len(t.parts) |-> ShapeOf(t.parts[k])]>>
  ELSE DimsR(t.rank, t.data)

\* ---- element functions ---------------------------------------------------
ElemOps == {"add", "sub", "mul"}
Elem(op, a, b) == CASE op = "add" -> a + b [] op = "sub" -> a - b [] op = "mul" -> a * b

RECURSIVE Apply2(_, _, _)
Apply2(op, x, y) ==
  IF x.rank = -1
    \* position by position: an entry is changed iff it is present on both sides
    THEN [rank |-> -1, parts |-> [k \in 1..Len(x.parts) |->
            IF x.parts[k] # NoTensor /\ y.parts[k] # NoTensor THEN Apply2(op, x.parts[k], y.parts[k]) ELSE x.parts[k]]]
  ELSE IF x.rank = 0
    THEN [rank |-> 0, parts |-> [k \in 1..Len(x.parts) |-> Apply2(op, x.parts[k], y.parts[k])]]
    ELSE [rank |-> x.rank, data |-> MapR(LAMBDA a, b : Elem(op, a, b), x.rank, x.data, y.data)]

\* Which (operation, rank) pairs the library supports (others are refused).
Supported(op, t) ==
  CASE op \in {"add", "div"}  -> TRUE                     \* ranks 1-4 and nested lists
    [] op \in {"sub", "mul", "hadamard", "mean"} -> t.rank \in 1..4

\* An operation with another operand is defined iff supported and the recorded shapes are equal.
RECURSIVE Compatible(_, _)
\* equal shapes; in a list with optional entries an absent entry is compatible with anything
Compatible(x, y) ==
  IF x.rank = -1 /\ y.rank = -1
    THEN Len(x.parts) = Len(y.parts)
         /\ \A k \in 1..Len(x.parts) : x.parts[k] = NoTensor \/ y.parts[k] = NoTensor \/ Compatible(x.parts[k], y.parts[k])
    ELSE ShapeOf(x) = ShapeOf(y)
Defined(op, x, y) == Supported(op, x) /\ Compatible(x, y)
OptPatterns == {<<TRUE, TRUE, TRUE>>, <<TRUE, FALSE, TRUE>>, <<FALSE, TRUE, TRUE>>, <<TRUE, FALSE, FALSE>>}

RECURSIVE DivBy(_, _)
DivBy(x, s) ==
  IF x.rank = 0 THEN [rank |-> 0, parts |-> [k \in 1..Len(x.parts) |-> DivBy(x.parts[k], s)]]
  ELSE [rank |-> x.rank, data |-> UnR(LAMBDA a : [n |-> a, d |-> s], x.rank, x.data)]

\* mean_inplace(others): (self + sum(others)) / (k + 1), element-wise.
MeanOf(x, others) ==
  LET k == Len(others)
      sum == [rank |-> x.rank,
              data |-> UnflatR(x.rank,
                         [i \in 1..Len(FlatR(x.rank, x.data)) |->
                            FlatR(x.rank, x.data)[i] + SumF([j \in 1..k |-> FlatR(x.rank, others[j].data)[i]])],
                         DimsR(x.rank, x.data))]
  IN DivBy(sum, k + 1)

\* ---- behaviours ------------------------------------------------------------
\* shapes that straddle 64 along one axis (block sizes used by parallel / chunked code paths must not show)
LargeShapes == {<<70>>, <<65, 2>>, <<2, 65>>, <<1, 66, 2>>, <<1, 1, 65, 1>>, <<33, 35>>}   \* 33 x 35: neither extent a multiple of 32
StartTensors ==
  {Mk(s, seed) : s \in UNION {ShapesOf(r) : r \in 1..4}, seed \in Seeds}
  \cup {Mk(s, 7) : s \in LargeShapes}
  \cup {MkNested(<<<<2>>, <<1, 2>>>>, seed) : seed \in Seeds}
  \cup {MkNested2(seed, 3) : seed \in Seeds}
  \cup {MkOptional(pat, 3) : pat \in OptPatterns}

\* Operands offered to a binary operation on x: the matching shape, and mismatching ones
\* (same rank other dimensions; another rank with the same element count; nested of another length).
Operands(x) ==
  IF x.rank = -1
    \* every presence pattern of the same length (incl. ones that differ from x's), and a shorter list
    THEN {MkOptional(pat, 5) : pat \in OptPatterns} \cup {MkOptional(<<TRUE, TRUE>>, 5)}
  ELSE IF IsDeep(x)
    \* the matching list of lists, and one whose INNERMOST tensor has another extent (equal lengths at every level)
    THEN {MkNested2(5, 3), MkNested2(5, 2), MkNested(<<<<2>>, <<1, 2>>>>, 5)}
  ELSE IF x.rank = 0
    \* the matching list, a shorter list, and lists of the same length with ONE entry of another shape
    THEN {MkNested(<<<<2>>, <<1, 2>>>>, 5), MkNested(<<<<2>>>>, 5), MkNested(<<<<3>>, <<1, 2>>>>, 5), MkNested(<<<<2>>, <<1, 3>>>>, 5)}
    ELSE LET s == DimsR(x.rank, x.data) IN
         \* the matching shape (two seeds), and shapes that differ in the FIRST or only in the LAST dimension
         {Mk(s, 4), Mk(s, 9), Mk([s EXCEPT ![1] = (s[1] % MaxDim) + 1], 4), Mk([s EXCEPT ![Len(s)] = (s[Len(s)] % MaxDim) + 1], 4)}
         \* another RANK with the same element count (a vector against a matrix or a feature map and the reverse)
         \cup (IF x.rank = 2 THEN {Mk(<<s[1] * s[2]>>, 4)} ELSE {})
         \cup (IF x.rank = 1 THEN {Mk(<<1, s[1]>>, 4), Mk(<<1, 1, s[1]>>, 4)} ELSE {})
         \cup (IF x.rank = 3 THEN {Mk(<<s[1] * s[2] * s[3]>>, 4)} ELSE {})

Init == /\ \E t \in StartTensors : acc = t /\ start = t
        /\ hist = <<>>
        /\ final = FALSE

Step(op, arg, res, outcome, extra) ==
  hist' = Append(hist, [op |-> op, arg |-> arg, outcome |-> outcome, result |-> res, extra |-> extra])

\* behaviours that start from one of the large tensors take a single binary step (their point is the size, and two
\* steps on a thousand elements each would only multiply the output)
IsLarge(t) == t.rank > 0 /\ DimsR(t.rank, t.data) \in LargeShapes
DepthOf(t) == IF IsLarge(t) THEN 1 ELSE Depth

\* (operations the library does not define on nested lists -- sub, mul, hadamard, mean -- are outside the property's
\*  quantifier and are not generated for them)
Binary(op, y) ==
  /\ ~final /\ Len(hist) < DepthOf(start) /\ UNCHANGED <<start, final>>
  /\ acc.rank <= 0 => op = "add"
  /\ IF Defined(op, acc, y)
       THEN /\ acc' = Apply2(op, acc, y)
            /\ Step(op, y, acc', "ok", 0)
       ELSE /\ acc' = acc
            /\ Step(op, y, acc, "panic", 0)

\* hadamard(other, scalar): a * b * scalar.
Hadamard(y, k) ==
  /\ ~final /\ Len(hist) < DepthOf(start) /\ UNCHANGED <<start, final>>
  /\ acc.rank > 0
  /\ IF Defined("hadamard", acc, y)
       THEN /\ acc' = [rank |-> acc.rank, data |-> MapR(LAMBDA a, b : a * b * k, acc.rank, acc.data, y.data)]
            /\ Step("hadamard", y, acc', "ok", k)
       ELSE /\ acc' = acc
            /\ Step("hadamard", y, acc, "panic", k)

\* div_scalar_inplace(s): terminal (the state leaves the integers).  "All scalars" includes divisors far below the
\* machine epsilon: 2^-30 and -2^-25, written as rationals (the quotient by a power of two is exact in single precision).
TinyScalars == {[n |-> 1, d |-> 1073741824], [n |-> -1, d |-> 33554432]}
DivScalar(s) ==
  /\ ~final /\ UNCHANGED <<start, acc>> /\ final' = TRUE
  /\ acc.rank >= 0
  /\ Step("div", acc, DivBy(acc, s), "ok", s)

\* mean_inplace(<<y1..yk>>): terminal; refused when a shape differs or the rank is unsupported.
Mean(ys) ==
  /\ ~final /\ UNCHANGED <<start, acc>> /\ final' = TRUE
  /\ acc.rank > 0
  /\ IF \A j \in 1..Len(ys) : Defined("mean", acc, ys[j])
       THEN Step("mean", ys, MeanOf(acc, ys), "ok", Len(ys))
       ELSE Step("mean", ys, acc, "panic", Len(ys))

MeanOperands(x) ==
  IF IsDeep(x) THEN {<<MkNested2(5, 3)>>}
  ELSE IF x.rank <= 0 THEN {<<MkNested(<<<<2>>, <<1, 2>>>>, 5)>>}
  ELSE LET s == DimsR(x.rank, x.data) IN
       {<<Mk(s, 4)>>, <<Mk(s, 4), Mk(s, 6)>>, <<Mk(s, 4), Mk(s, 6), Mk(s, 9)>>,
        <<Mk(s, 4), Mk([s EXCEPT ![1] = (s[1] % MaxDim) + 1], 6)>>}

\* clamp(lo, hi): every element limited to the interval (ranks 1..4; terminal only to bound the search).
ClampOp(lo, hi) ==
  /\ ~final /\ UNCHANGED <<start, acc>> /\ final' = TRUE
  /\ acc.rank > 0
  /\ IF acc.rank \in 1..4
       THEN Step("clamp", acc, [rank |-> acc.rank, data |-> UnR(LAMBDA a : Clamp(a, lo, hi), acc.rank, acc.data)], "ok", <<lo, hi>>)
       ELSE Step("clamp", acc, acc, "panic", <<lo, hi>>)

\* transpose (matrices), dot (matrix x vector), product (outer product of two vectors).
TransposeOp ==
  /\ ~final /\ UNCHANGED <<start, acc>> /\ final' = TRUE
  /\ acc.rank = 2
  /\ IF acc.rank = 2 THEN Step("transpose", acc, [rank |-> 2, data |-> Transpose(acc.data)], "ok", 0)
                     ELSE Step("transpose", acc, acc, "panic", 0)

\* seed 0: a SPARSE vector (most entries exactly zero, the others negative and positive)
DotVector(n, seed) ==
  IF seed = 0 THEN [rank |-> 1, data |-> [i \in 1..n |-> IF i % 9 = 5 THEN -2 ELSE IF i % 13 = 0 THEN 3 ELSE 0]]
  ELSE Mk(<<n>>, seed)
DotOp(seed) ==
  /\ ~final /\ acc.rank = 2 /\ UNCHANGED <<start, acc>> /\ final' = TRUE
  /\ LET v == DotVector(Len(acc.data[1]), seed) IN
     Step("dot", v, [rank |-> 1, data |-> Dot(acc.data, v.data)], "ok", 0)

\* clamp bounded on ONE side only: the other bound is infinite (extra = [side, bound])
ClampOneSided(side, b) ==
  /\ ~final /\ UNCHANGED <<start, acc>> /\ final' = TRUE
  /\ acc.rank \in 1..4
  /\ Step("clamp1", acc, [rank |-> acc.rank,
                          data |-> UnR(LAMBDA a : IF side = "upper" THEN (IF a > b THEN b ELSE a) ELSE (IF a < b THEN b ELSE a), acc.rank, acc.data)],
          "ok", [side |-> side, bound |-> b])

OuterOp(seed, n) ==
  /\ ~final /\ acc.rank = 1 /\ UNCHANGED <<start, acc>> /\ final' = TRUE
  /\ LET v == Mk(<<n>>, seed) IN
     Step("product", v, [rank |-> 2, data |-> Outer(acc.data, v.data)], "ok", 0)

\* lists with optional entries support no terminal operation: their behaviours simply end
StopOptional == ~final /\ acc.rank = -1 /\ hist # <<>> /\ final' = TRUE /\ UNCHANGED <<start, acc, hist>>

Next ==
  \/ StopOptional
  \/ \E lo \in {-2, 0}, hi \in {0, 1} : ClampOp(lo, hi)
  \/ TransposeOp
  \/ \E seed \in {0, 4, 6} : DotOp(seed)
  \/ \E side \in {"upper", "lower"}, b \in {-1, 1} : ClampOneSided(side, b)
  \/ \E seed \in {4}, n \in 1..3 : OuterOp(seed, n)
  \/ \E op \in ElemOps, y \in Operands(acc) : Binary(op, y)
  \/ \E y \in Operands(acc), k \in {1, 2, -1, 3, -7} : Hadamard(y, k)   \* 3 and -7: (a*b)*k and a*(b*k) round differently
  \/ \E s \in {1, 2, 3, -4} : DivScalar(s)
  \/ \E s \in TinyScalars : DivScalar(s)
  \/ \E ys \in MeanOperands(acc) : Mean(ys)

Spec == Init /\ [][Next]_vars

\* ---- properties (C15) ---------------------------------------------------------
\* The shape never changes.
ShapeUnchanged == [][ShapeOf(acc') = ShapeOf(acc)]_vars
\* Every accepted step had equal shapes; every refused one a differing shape or an unsupported rank.
RefusedIffMismatch ==
  \A i \in 1..Len(hist) :
    LET h == hist[i] IN
    h.op \in (ElemOps \cup {"hadamard"}) =>
      ((h.outcome = "panic") <=> ~(Supported(h.op, h.result) /\ Compatible(h.result, h.arg)))
\* Exactness domain: every integer stays far below 2^24.
RECURSIVE MaxAbs(_)
MaxAbs(t) ==
  IF t.rank = -2 THEN 0
  ELSE IF t.rank = -1 THEN Max2(MaxAbs(t.parts[1]), Max2(MaxAbs(t.parts[2]), IF Len(t.parts) > 2 THEN MaxAbs(t.parts[3]) ELSE 0))
  ELSE IF t.rank = 0 THEN Max2(MaxAbs(t.parts[1]), IF Len(t.parts) > 1 THEN MaxAbs(t.parts[2]) ELSE 0)
  ELSE LET f == FlatR(t.rank, t.data) IN
       CHOOSE m \in {Abs(f[i]) : i \in 1..Len(f)} : \A i \in 1..Len(f) : Abs(f[i]) <= m
ExactRange == MaxAbs(acc) < 1000000
\* Clamped values lie in the interval.
ClampInInterval ==
  \A i \in 1..Len(hist) :
    hist[i].op = "clamp" /\ hist[i].outcome = "ok" =>
      LET f == FlatR(hist[i].result.rank, hist[i].result.data) IN
      \A j \in 1..Len(f) : hist[i].extra[1] <= f[j] /\ f[j] <= hist[i].extra[2]
=============================================================================
