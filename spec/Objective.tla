---------------------------- MODULE Objective ----------------------------
(***************************************************************************)
(* The seven objective functions of src/objective.rs (C06) as terms:       *)
(* reported loss, documented per-element gradient, gradient clamp.         *)
(* Leaves: p1..pn (predictions), t1..tn (targets), row-major.              *)
(***************************************************************************)
EXTENDS Num, TLC

Objectives == {"ae", "mae", "mse", "rmse", "ce", "bce", "kl"}
Probabilistic == {"ce", "bce", "kl"}          \* predictions and targets in [0, 1]

P(i) == Leaf("p" \o ToString(i))
T(i) == Leaf("t" \o ToString(i))
Eps == Const(1, 1000000)
\* prediction clamped into [eps, 1 - eps] before it enters a logarithm or a denominator
PC(i) == Clamp(P(i), Eps, Sub(One, Eps))
NN(n) == Const(n, 1)

Terms(n, F(_)) == [i \in 1..n |-> F(i)]

Loss(obj, n) ==
  CASE obj = "ae"   -> SumTerms(Terms(n, LAMBDA i : Abs(Sub(T(i), P(i)))))
    [] obj = "mae"  -> Div(SumTerms(Terms(n, LAMBDA i : Abs(Sub(T(i), P(i))))), NN(n))
    [] obj = "mse"  -> Div(SumTerms(Terms(n, LAMBDA i : Sq(Sub(T(i), P(i))))), NN(n))
    [] obj = "rmse" -> Sqrt(Div(SumTerms(Terms(n, LAMBDA i : Sq(Sub(T(i), P(i))))), NN(n)))
    [] obj = "ce"   -> Neg(SumTerms(Terms(n, LAMBDA i : Mul(T(i), Ln(PC(i))))))
    [] obj = "bce"  -> Neg(SumTerms(Terms(n, LAMBDA i :
                           Add(Mul(T(i), Ln(PC(i))), Mul(Sub(One, T(i)), Ln(Sub(One, PC(i))))))))
       \* convention 0 * ln(0 / p) = 0: a zero target contributes nothing
    [] obj = "kl"   -> SumTerms(Terms(n, LAMBDA i : IfPos(T(i), Mul(T(i), Ln(Div(T(i), PC(i)))), Zero)))

\* documented gradient w.r.t. prediction i
Grad(obj, n, i) ==
  CASE obj \in {"ae", "mae"} -> Neg(Sign(Sub(T(i), P(i))))
    [] obj = "mse"  -> Div(Mul(Const(-2, 1), Sub(T(i), P(i))), NN(n))
    [] obj = "rmse" -> IfPos(Abs(Sub(T(i), P(i))),
                             Div(Neg(Sub(T(i), P(i))), Mul(Sqrt(Sq(Sub(T(i), P(i)))), NN(n))), Zero)
    [] obj = "ce"   -> Sub(P(i), T(i))
    [] obj = "bce"  -> Div(Sub(PC(i), T(i)), Mul(PC(i), Sub(One, PC(i))))
    [] obj = "kl"   -> Div(Neg(T(i)), PC(i))

\* with a clamp (lo, hi) every component is the unclamped value limited to the interval
Clamped(g, c) == IF c = <<>> THEN g ELSE Clamp(g, c[1], c[2])

\* objectives whose gradient must be the derivative of the reported loss
Differentiable == {"ae", "mse", "bce", "kl"}
DLoss(obj, n, i) == D(Loss(obj, n), "p" \o ToString(i))
=============================================================================
