---------------------------- MODULE OrderProof ----------------------------
(***************************************************************************)
(* The reduction of one group of samples is the ORDERED sum, whatever the  *)
(* workers do (C04 / C05) -- for an ARBITRARY group length, an ARBITRARY    *)
(* number of workers and EVERY interleaving, proved with TLAPS.            *)
(*                                                                         *)
(* Abstraction of the group phase of Training.tla (BatchBegin .. Update):  *)
(* sample tasks 1..L are picked up and finished in any order and with any  *)
(* overlap; the calling thread adds the result of sample red + 1 as soon   *)
(* as that task has finished (Reduce).  `acc` is the sequence of samples   *)
(* whose results have been added, written as a function on 1..red so that  *)
(* the proof needs no sequence library.                                    *)
(***************************************************************************)
EXTENDS Integers, TLAPS

CONSTANT L
ASSUME LNat == L \in Nat /\ L >= 1

VARIABLES started, done, red, acc
vars == <<started, done, red, acc>>

Init == started = {} /\ done = {} /\ red = 0 /\ acc = [i \in 1..0 |-> 0]
Start(s)  == s \in (1..L) \ started /\ started' = started \cup {s} /\ UNCHANGED <<done, red, acc>>
Finish(s) == s \in started \ done /\ done' = done \cup {s} /\ UNCHANGED <<started, red, acc>>
Reduce ==
  /\ red < L /\ (red + 1) \in done
  /\ red' = red + 1
  /\ acc' = [i \in 1..(red + 1) |-> IF i <= red THEN acc[i] ELSE red + 1]
  /\ UNCHANGED <<started, done>>
Next == (\E s \in 1..L : Start(s) \/ Finish(s)) \/ Reduce
Spec == Init /\ [][Next]_vars

\* what the optimizer step receives once the group is complete: the samples in index order, each exactly once
InOrder == acc = [i \in 1..red |-> i]
Complete == red = L => acc = [i \in 1..L |-> i]

Inv ==
  /\ red \in 0..L
  /\ started \subseteq 1..L /\ done \subseteq started
  /\ \A i \in 1..red : i \in done               \* nothing is added before its task has finished
  /\ InOrder

LEMMA InitInv == Init => Inv
  BY LNat DEF Init, Inv, InOrder

LEMMA NextInv == Inv /\ [Next]_vars => Inv'
<1> SUFFICES ASSUME Inv, [Next]_vars PROVE Inv'
  OBVIOUS
<1>1. ASSUME NEW s \in 1..L, Start(s) PROVE Inv'
  BY <1>1, LNat DEF Start, Inv, InOrder
<1>2. ASSUME NEW s \in 1..L, Finish(s) PROVE Inv'
  BY <1>2, LNat DEF Finish, Inv, InOrder
<1>3. CASE Reduce
  <2>1. red' = red + 1 /\ red + 1 \in 1..L /\ red \in 0..L
    BY <1>3, LNat DEF Reduce, Inv
  <2>2. acc' = [i \in 1..(red + 1) |-> i]
    <3>1. \A i \in 1..(red + 1) : (IF i <= red THEN acc[i] ELSE red + 1) = i
      BY <2>1 DEF Inv, InOrder
    <3> QED BY <3>1, <1>3 DEF Reduce
  <2>3. \A i \in 1..(red + 1) : i \in done
    BY <1>3, <2>1 DEF Reduce, Inv
  <2> QED BY <1>3, <2>1, <2>2, <2>3 DEF Reduce, Inv, InOrder
<1>4. CASE UNCHANGED vars
  BY <1>4 DEF vars, Inv, InOrder
<1> QED BY <1>1, <1>2, <1>3, <1>4 DEF Next

THEOREM Ordered == Spec => [](InOrder /\ Complete)
<1>1. Spec => []Inv
  BY InitInv, NextInv, PTL DEF Spec
<1>2. Inv => InOrder /\ Complete
  BY DEF Inv, InOrder, Complete
<1> QED BY <1>1, <1>2, PTL
=============================================================================
