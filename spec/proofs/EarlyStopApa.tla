---------------------------- MODULE EarlyStopApa ----------------------------
(***************************************************************************)
(* The early-stopping rule and the returned histories of learn (C13),      *)
(* for ARBITRARY integer validation losses (symbolic), checked by Apalache *)
(* up to a bounded number of epochs.  Same rule as Training.tla            *)
(* (EpochEnd / ValPush / StopCheck collapsed into one step per epoch).     *)
(***************************************************************************)
EXTENDS Integers, Sequences

CONSTANTS
  \* @type: Int;
  Budget,
  \* @type: Int;
  Tol,
  \* @type: Bool;
  HasVal

VARIABLES
  \* @type: Int;
  epoch,
  \* @type: Seq(Int);
  valLoss,
  \* @type: Int;
  trainLen,
  \* @type: Str;
  pc

ConstInit == Budget \in 1..8 /\ Tol \in 1..5 /\ HasVal \in BOOLEAN

\* the last Tol recorded losses are strictly increasing
Increasing(h) == \A i \in 1..7 : (i >= Len(h) - Tol + 1 /\ i <= Len(h) - 1) => h[i] < h[i + 1]
StopNow == HasVal /\ epoch > Tol /\ Len(valLoss) >= Tol /\ Increasing(valLoss)

Init == epoch = 1 /\ valLoss = <<>> /\ trainLen = 0 /\ pc = "epoch"

\* one epoch: train, record the training loss, validate (any loss value), decide
RunEpoch ==
  /\ pc = "epoch"
  /\ trainLen' = trainLen + 1
  /\ IF HasVal THEN \E v \in Int : valLoss' = Append(valLoss, v) ELSE valLoss' = valLoss
  /\ pc' = "check"
  /\ UNCHANGED epoch

Check ==
  /\ pc = "check"
  /\ IF StopNow THEN pc' = "done" /\ UNCHANGED epoch
     ELSE IF epoch < Budget THEN pc' = "epoch" /\ epoch' = epoch + 1
     ELSE pc' = "done" /\ UNCHANGED epoch
  /\ UNCHANGED <<valLoss, trainLen>>

Done == pc = "done" /\ UNCHANGED <<epoch, valLoss, trainLen, pc>>
Next == RunEpoch \/ Check \/ Done

\* the stop condition evaluated on the first e recorded losses
HeldAt(e) == HasVal /\ e > Tol /\ e <= Len(valLoss)
             /\ \A i \in 1..7 : (i >= e - Tol + 1 /\ i <= e - 1) => valLoss[i] < valLoss[i + 1]

HistoriesOK ==
  pc = "done" =>
    /\ trainLen >= 1 /\ trainLen <= Budget /\ trainLen = epoch
    /\ Len(valLoss) = (IF HasVal THEN trainLen ELSE 0)
    /\ (trainLen < Budget => HeldAt(trainLen))
    /\ \A e \in 1..7 : e < trainLen => ~HeldAt(e)
    /\ (~HasVal => trainLen = Budget)
=============================================================================
