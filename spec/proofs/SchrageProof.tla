---------------------------- MODULE SchrageProof ----------------------------
(***************************************************************************)
(* The successor function of Random.tla -- Schrage's overflow-free form,   *)
(* the one src/random.rs computes in 64-bit arithmetic and the one TLC     *)
(* evaluates in its 32-bit integers -- IS the minstd recurrence             *)
(*     state' = 48271 * state mod (2^31 - 1)                               *)
(* for EVERY state 0 .. 2^31 - 2, and all its intermediates stay below     *)
(* 2^31 (so TLC's evaluation never overflows).  Proved with TLAPS (C18).   *)
(***************************************************************************)
EXTENDS Integers, TLAPS

M == 2147483647
NextState(x) ==
  LET t == 48271 * (x % 44488) - 3399 * (x \div 44488) IN IF t < 0 THEN t + M ELSE t

LEMMA ModUnique == \A a, k \in Int : \A b \in 0..(M - 1) : a = M * k + b => a % M = b
  BY SMT DEF M

THEOREM Schrage ==
  \A x \in 0..(M - 1) :
     /\ NextState(x) = (48271 * x) % M
     /\ NextState(x) \in 0..(M - 1)
     /\ 48271 * (x % 44488) \in 0..M            \* intermediates fit 32-bit signed integers
     /\ 3399 * (x \div 44488) \in 0..M
<1> TAKE x \in 0..(M - 1)
<1> DEFINE q == x \div 44488
<1> DEFINE r == x % 44488
<1> DEFINE t == 48271 * r - 3399 * q
<1>1. q \in 0..48271 /\ r \in 0..44487 /\ x = 44488 * q + r
  BY SMT DEF M
<1>2. 48271 * x = M * q + t
  BY <1>1, SMT DEF M
<1>3. t > -M /\ t < M
  BY <1>1, SMT DEF M
<1>4. (48271 * x) % M = IF t < 0 THEN t + M ELSE t
  <2>a. x \in Int /\ q \in Int /\ r \in Int
    BY <1>1, SMT DEF M
  <2>b. t \in Int /\ 48271 * x \in Int
    BY <2>a, SMT
  <2>1. CASE t >= 0
    <3>1. t \in 0..(M - 1) /\ 48271 * x = M * q + t
      BY <2>1, <1>2, <1>3, <2>a, <2>b, SMT DEF M
    <3> HIDE DEF q, r, t
    <3> QED BY <3>1, <2>1, <2>a, <2>b, ModUnique, SMT
  <2>2. CASE t < 0
    <3>1. t + M \in 0..(M - 1) /\ 48271 * x = M * (q - 1) + (t + M) /\ q - 1 \in Int
      BY <2>2, <1>2, <1>3, <2>a, <2>b, SMT DEF M
    <3> HIDE DEF q, r, t
    <3> QED BY <3>1, <2>2, <2>a, <2>b, ModUnique, SMT
  <2> QED BY <2>1, <2>2, <2>b, SMT
<1>5. NextState(x) = IF t < 0 THEN t + M ELSE t
  BY SMT DEF NextState
<1> QED BY <1>1, <1>3, <1>4, <1>5, SMT DEF M
=============================================================================
