---------------------------- MODULE CollectProof ----------------------------
(***************************************************************************)
(* predict_batch / validate see every input exactly once and in input      *)
(* order, for ANY number of inputs and EVERY order in which the parallel    *)
(* chunks are evaluated (C12) -- proved with TLAPS.                        *)
(*                                                                         *)
(* Abstraction of ValidateSM.tla with the chunk size of the code (64): the *)
(* N inputs are cut into consecutive chunks; chunk c is evaluated at any   *)
(* time (Eval(c)) and yields one result per input of the chunk, in the     *)
(* chunk's own order; Collect reads the results by chunk index.  A result  *)
(* is represented by the index of the input it belongs to, so "in input    *)
(* order, each exactly once" is  out = [i \in 1..N |-> i].                 *)
(***************************************************************************)
EXTENDS Integers, TLAPS

CONSTANT N
ASSUME NNat == N \in Nat

Chunks == 1..((N + 63) \div 64)
SizeOf(c) == IF 64 * c <= N THEN 64 ELSE N - 64 * (c - 1)
Result(c) == [k \in 1..SizeOf(c) |-> 64 * (c - 1) + k]

VARIABLES pend, res, out, pc
vars == <<pend, res, out, pc>>

Init == /\ pend = Chunks /\ res = [c \in Chunks |-> [k \in 1..0 |-> 0]]
        /\ out = [i \in 1..0 |-> 0] /\ pc = "map"
Eval(c) == /\ pc = "map" /\ c \in pend
           /\ pend' = pend \ {c}
           /\ res' = [res EXCEPT ![c] = Result(c)]
           /\ UNCHANGED <<out, pc>>
Collect == /\ pc = "map" /\ pend = {}
           /\ out' = [i \in 1..N |-> res[((i - 1) \div 64) + 1][((i - 1) % 64) + 1]]
           /\ pc' = "done"
           /\ UNCHANGED <<pend, res>>
Next == (\E c \in Chunks : Eval(c)) \/ Collect
Spec == Init /\ [][Next]_vars

InOrder == pc = "done" => out = [i \in 1..N |-> i]

Inv ==
  /\ pc \in {"map", "done"}
  /\ pend \subseteq Chunks
  /\ DOMAIN res = Chunks
  /\ \A c \in Chunks \ pend : res[c] = Result(c)
  /\ InOrder

\* arithmetic of the chunking: input i lies in chunk (i-1) div 64 + 1 at offset (i-1) mod 64 + 1
LEMMA Chunking ==
  \A i \in 1..N :
     LET c == ((i - 1) \div 64) + 1  k == ((i - 1) % 64) + 1 IN
     /\ c \in Chunks /\ k \in 1..SizeOf(c) /\ 64 * (c - 1) + k = i
  BY NNat, SMT DEF Chunks, SizeOf

LEMMA InitInv == Init => Inv
  BY NNat, SMT DEF Init, Inv, InOrder, Chunks

LEMMA NextInv == Inv /\ [Next]_vars => Inv'
<1> SUFFICES ASSUME Inv, [Next]_vars PROVE Inv'
  OBVIOUS
<1>1. ASSUME NEW c \in Chunks, Eval(c) PROVE Inv'
  <2>1. DOMAIN res' = Chunks
    BY <1>1 DEF Eval, Inv
  <2>2. \A d \in Chunks \ pend' : res'[d] = Result(d)
    BY <1>1 DEF Eval, Inv
  <2> QED BY <1>1, <2>1, <2>2 DEF Eval, Inv, InOrder
<1>2. CASE Collect
  <2>1. \A i \in 1..N : res[((i - 1) \div 64) + 1][((i - 1) % 64) + 1] = i
    <3> TAKE i \in 1..N
    <3> DEFINE c == ((i - 1) \div 64) + 1
    <3> DEFINE k == ((i - 1) % 64) + 1
    <3>1. c \in Chunks /\ k \in 1..SizeOf(c) /\ 64 * (c - 1) + k = i
      BY Chunking
    <3>2. res[c] = Result(c)
      BY <1>2, <3>1 DEF Collect, Inv
    <3>3. Result(c)[k] = 64 * (c - 1) + k
      BY <3>1 DEF Result
    <3> QED BY <3>1, <3>2, <3>3
  <2>2. out' = [i \in 1..N |-> i]
    BY <1>2, <2>1 DEF Collect
  <2> QED BY <1>2, <2>2 DEF Collect, Inv, InOrder
<1>3. CASE UNCHANGED vars
  BY <1>3 DEF vars, Inv, InOrder
<1> QED BY <1>1, <1>2, <1>3 DEF Next

THEOREM Ordered == Spec => []InOrder
<1>1. Spec => []Inv
  BY InitInv, NextInv, PTL DEF Spec
<1>2. Inv => InOrder
  BY DEF Inv
<1> QED BY <1>1, <1>2, PTL
=============================================================================
