---------------------------- MODULE FlagsProof ----------------------------
(***************************************************************************)
(* The training-flag discipline of Training.tla (C09), abstracted to the   *)
(* control skeleton, for an ARBITRARY number of layers L and an arbitrary  *)
(* layout HasFlag of which layers own a flag -- proved with TLAPS.         *)
(*                                                                         *)
(*   idle --LearnBegin--> train --ValidateEnter--> vmap --ValidateExit-->  *)
(*   train ... --LearnEnd--> done;  user-level validate: idle/done -> vmap *)
(*   -> back.                                                              *)
(*                                                                         *)
(* THEOREM Safe: in every reachable state, no flag is on while validation  *)
(* evaluates, every flag-owning layer has its flag on while training       *)
(* gradients are computed, and all flags are off after learn returns.      *)
(***************************************************************************)
EXTENDS Naturals, TLAPS

CONSTANTS L, HasFlag
ASSUME LNat == L \in Nat
ASSUME HasFlagType == HasFlag \in [1..L -> BOOLEAN]

VARIABLES flags, pc, saved, back
vars == <<flags, pc, saved, back>>

AllOff == [i \in 1..L |-> FALSE]

Init == flags = AllOff /\ pc = "idle" /\ saved = FALSE /\ back = "idle"

LearnBegin == pc = "idle" /\ flags' = HasFlag /\ pc' = "train" /\ UNCHANGED <<saved, back>>

\* validate entered from the training loop or by the user; remembers whether any flag was on, clears every flag
ValidateEnter ==
  /\ pc \in {"train", "idle", "done"}
  /\ saved' = (\E i \in 1..L : flags[i])
  /\ flags' = AllOff
  /\ back' = pc /\ pc' = "vmap"

\* restores the flags iff training was on at entry
ValidateExit ==
  /\ pc = "vmap"
  /\ flags' = IF saved THEN HasFlag ELSE flags
  /\ pc' = back
  /\ UNCHANGED <<saved, back>>

LearnEnd == pc = "train" /\ flags' = AllOff /\ pc' = "done" /\ UNCHANGED <<saved, back>>

Next == LearnBegin \/ ValidateEnter \/ ValidateExit \/ LearnEnd
Spec == Init /\ [][Next]_vars

NoLeak ==
  /\ pc = "vmap" => \A i \in 1..L : ~flags[i]
  /\ pc = "train" => flags = HasFlag
  /\ pc \in {"idle", "done"} => \A i \in 1..L : ~flags[i]

\* inductive strengthening
Inv ==
  /\ pc \in {"idle", "train", "vmap", "done"}
  /\ back \in {"idle", "train", "done"}
  /\ flags \in [1..L -> BOOLEAN]
  /\ saved \in BOOLEAN
  /\ NoLeak
  /\ pc = "vmap" => /\ back = "train" => saved = (\E i \in 1..L : HasFlag[i])
                    /\ back \in {"idle", "done"} => saved = FALSE

LEMMA InitInv == Init => Inv
  BY LNat, HasFlagType DEF Init, Inv, NoLeak, AllOff

LEMMA NextInv == Inv /\ [Next]_vars => Inv'
<1> SUFFICES ASSUME Inv, [Next]_vars PROVE Inv'
  OBVIOUS
<1>1. CASE LearnBegin
  BY <1>1, LNat, HasFlagType DEF LearnBegin, Inv, NoLeak, AllOff
<1>2. CASE ValidateEnter
  BY <1>2, LNat, HasFlagType DEF ValidateEnter, Inv, NoLeak, AllOff
<1>3. CASE ValidateExit
  <2>1. CASE saved
    BY <1>3, <2>1, LNat, HasFlagType DEF ValidateExit, Inv, NoLeak, AllOff
  <2>2. CASE ~saved
    BY <1>3, <2>2, LNat, HasFlagType DEF ValidateExit, Inv, NoLeak, AllOff
  <2> QED BY <2>1, <2>2
<1>4. CASE LearnEnd
  BY <1>4, LNat, HasFlagType DEF LearnEnd, Inv, NoLeak, AllOff
<1>5. CASE UNCHANGED vars
  BY <1>5 DEF vars, Inv, NoLeak
<1> QED BY <1>1, <1>2, <1>3, <1>4, <1>5 DEF Next

THEOREM Safe == Spec => []NoLeak
<1>1. Spec => []Inv
  BY InitInv, NextInv, PTL DEF Spec
<1>2. Inv => NoLeak
  BY DEF Inv
<1> QED BY <1>1, <1>2, PTL
=============================================================================
