---------------------------- MODULE TyingProof ----------------------------
(***************************************************************************)
(* Weight tying of feedback blocks (C10) for an ARBITRARY number of loops, *)
(* ARBITRARY per-copy gradients and an ARBITRARY coupling function --      *)
(* proved with TLAPS.  Abstraction of FeedbackSM.tla: one integer per copy *)
(* stands for every weight / bias / kernel entry.                          *)
(***************************************************************************)
EXTENDS Integers, TLAPS

CONSTANTS Loops, Couple(_), W0
ASSUME LoopsNat == Loops \in Nat /\ Loops >= 1
ASSUME W0Int == W0 \in Int
\* whatever the accumulation is (add, subtract, multiply, mean, ...), it maps the updated copies to ONE value
ASSUME CoupleType == \A u \in [1..Loops -> Int] : Couple(u) \in Int

VARIABLE copies
Init == copies = [c \in 1..Loops |-> W0]                       \* created as clones of one layer
\* every copy takes its own optimizer step (any per-copy change d), then all copies receive the coupled value
Update == \E d \in [1..Loops -> Int] :
            copies' = [c \in 1..Loops |-> Couple([k \in 1..Loops |-> copies[k] - d[k]])]
Spec == Init /\ [][Update]_copies

TypeOK == copies \in [1..Loops -> Int]
AllCopiesEqual == \A c, d \in 1..Loops : copies[c] = copies[d]
Inv == TypeOK /\ AllCopiesEqual

LEMMA InitInv == Init => Inv
  BY W0Int, LoopsNat DEF Init, Inv, TypeOK, AllCopiesEqual

LEMMA NextInv == Inv /\ [Update]_copies => Inv'
<1> SUFFICES ASSUME Inv, [Update]_copies PROVE Inv'
  OBVIOUS
<1>1. CASE Update
  <2>1. PICK d \in [1..Loops -> Int] : copies' = [c \in 1..Loops |-> Couple([k \in 1..Loops |-> copies[k] - d[k]])]
    BY <1>1 DEF Update
  <2>2. [k \in 1..Loops |-> copies[k] - d[k]] \in [1..Loops -> Int]
    BY DEF Inv, TypeOK
  <2>3. Couple([k \in 1..Loops |-> copies[k] - d[k]]) \in Int
    BY <2>2, CoupleType
  <2> QED BY <2>1, <2>3 DEF Inv, TypeOK, AllCopiesEqual
<1>2. CASE UNCHANGED copies
  BY <1>2 DEF Inv, TypeOK, AllCopiesEqual
<1> QED BY <1>1, <1>2

THEOREM Tied == Spec => []AllCopiesEqual
<1>1. Spec => []Inv
  BY InitInv, NextInv, PTL DEF Spec
<1>2. Inv => AllCopiesEqual
  BY DEF Inv
<1> QED BY <1>1, <1>2, PTL
=============================================================================
