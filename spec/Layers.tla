---------------------------- MODULE Layers ----------------------------
(***************************************************************************)
(* The four primitive layer kinds of `neurons` in exact (integer) mode:    *)
(* output-shape formulas, the DEFINING forward operators (C02), and the    *)
(* backward MECHANISMS (C01) whose correctness -- being the exact          *)
(* derivative of the forward definition -- is checked by TLC in MC_Layers  *)
(* by per-coordinate finite differences.                                   *)
(*                                                                         *)
(* A configuration is a record                                             *)
(*   [kind, c, h, w,            input channels / height / width            *)
(*    f, kh, kw, sh, sw,        filters, kernel, stride                    *)
(*    ph, pw, dh, dw,           padding, dilation                          *)
(*    act]                      "linear" | "relu"                          *)
(* (dense layers use c = inputs, f = outputs, h = w = 1; bias in `bias`).  *)
(* Indices are 1-based; x[ch][i][j]; kernels K[f][ch][a][b].               *)
(***************************************************************************)
EXTENDS Tensor

\* ---------- activations (exact ones) -----------------------------------------
Act(a, v)  == IF a = "relu" THEN Max2(v, 0) ELSE v
ActD(a, v) == IF a = "relu" THEN (IF v > 0 THEN 1 ELSE 0) ELSE 1

\* ---------- shape formulas (C08) ---------------------------------------------
ConvOH(c) == (c.h + 2*c.ph - c.dh*(c.kh - 1) - 1) \div c.sh + 1
ConvOW(c) == (c.w + 2*c.pw - c.dw*(c.kw - 1) - 1) \div c.sw + 1
\* The effective kernel fits the padded input.
ConvFits(c) == /\ c.h + 2*c.ph >= c.dh*(c.kh - 1) + 1
               /\ c.w + 2*c.pw >= c.dw*(c.kw - 1) + 1

DeconvOH(c) == (c.h - 1)*c.sh + c.kh - 2*c.ph
DeconvOW(c) == (c.w - 1)*c.sw + c.kw - 2*c.pw
DeconvFits(c) == DeconvOH(c) >= 1 /\ DeconvOW(c) >= 1

PoolOH(c) == (c.h - c.kh) \div c.sh + 1
PoolOW(c) == (c.w - c.kw) \div c.sw + 1
PoolFits(c) == c.kh <= c.h /\ c.kw <= c.w

OutShape(c) ==
  CASE c.kind = "conv"   -> <<c.f, ConvOH(c), ConvOW(c)>>
    [] c.kind = "deconv" -> <<c.f, DeconvOH(c), DeconvOW(c)>>
    [] c.kind = "pool"   -> <<c.c, PoolOH(c), PoolOW(c)>>
    [] c.kind = "dense"  -> <<c.f>>
Fits(c) ==
  CASE c.kind = "conv"   -> ConvFits(c)
    [] c.kind = "deconv" -> DeconvFits(c)
    [] c.kind = "pool"   -> PoolFits(c)
    [] c.kind = "dense"  -> TRUE

\* A flat vector of length n feeds a spatial layer as 1 x r x r iff n = r*r.
IsSquare(n) == \E r \in 1..n : r * r = n
Root(n) == CHOOSE r \in 1..n : r * r = n

\* ---------- convolution --------------------------------------------------------
\* zero-padded input, 1-based padded coordinates
XP(x, c, ch, i, j) ==
  IF i - c.ph \in 1..c.h /\ j - c.pw \in 1..c.w THEN x[ch][i - c.ph][j - c.pw] ELSE 0

\* padded row / column read by output position o through kernel tap a
TapH(c, o, a) == (o - 1)*c.sh + (a - 1)*c.dh + 1
TapW(c, o, b) == (o - 1)*c.sw + (b - 1)*c.dw + 1

\* Definition: zero-padded, strided, dilated cross-correlation.
ConvPre(x, K, c) ==
  TLCEval([f \in 1..c.f |-> TLCEval([oh \in 1..ConvOH(c) |-> TLCEval([ow \in 1..ConvOW(c) |->
     SumF(TLCEval([t \in (1..c.c) \X (1..c.kh) \X (1..c.kw) |->
            K[f][t[1]][t[2]][t[3]] * XP(x, c, t[1], TapH(c, oh, t[2]), TapW(c, ow, t[3]))]))])])])

\* Mechanism: kernel gradient (gather over output positions) ...
ConvBwdK(x, d, c) ==
  TLCEval([f \in 1..c.f |-> TLCEval([ch \in 1..c.c |-> TLCEval([a \in 1..c.kh |-> TLCEval([b \in 1..c.kw |->
     SumF(TLCEval([t \in (1..ConvOH(c)) \X (1..ConvOW(c)) |->
            d[f][t[1]][t[2]] * XP(x, c, ch, TapH(c, t[1], a), TapW(c, t[2], b))]))])])])])
\* ... and input gradient (scatter of delta through the kernel taps, written as a gather).
ConvBwdX(K, d, c) ==
  TLCEval([ch \in 1..c.c |-> TLCEval([i \in 1..c.h |-> TLCEval([j \in 1..c.w |->
     SumF(TLCEval([t \in (1..c.f) \X (1..c.kh) \X (1..c.kw) |->
            \* output position (oh, ow) that reads x[ch][i][j] through tap (a, b) = (t[2], t[3]), if any
            LET ti == i + c.ph - 1 - (t[2] - 1)*c.dh
                tj == j + c.pw - 1 - (t[3] - 1)*c.dw
            IN IF ti >= 0 /\ tj >= 0 /\ ti % c.sh = 0 /\ tj % c.sw = 0
                  /\ (ti \div c.sh) + 1 <= ConvOH(c) /\ (tj \div c.sw) + 1 <= ConvOW(c)
                 THEN d[t[1]][(ti \div c.sh) + 1][(tj \div c.sw) + 1] * K[t[1]][ch][t[2]][t[3]] ELSE 0]))])])])

\* ---------- deconvolution (transposed convolution cropped by the padding) --------
\* y[f][o][p] = sum over (ch,i,j,a,b) with (i-1)*sh + a - ph = o and (j-1)*sw + b - pw = p of x*K
DeconvPre(x, K, c) ==
  TLCEval([f \in 1..c.f |-> TLCEval([o \in 1..DeconvOH(c) |-> TLCEval([p \in 1..DeconvOW(c) |->
     SumF(TLCEval([t \in (1..c.c) \X (1..c.h) \X (1..c.w) |->
            LET a == o + c.ph - (t[2] - 1)*c.sh
                b == p + c.pw - (t[3] - 1)*c.sw
            IN IF a \in 1..c.kh /\ b \in 1..c.kw THEN x[t[1]][t[2]][t[3]] * K[f][t[1]][a][b] ELSE 0]))])])])

DeconvBwdK(x, d, c) ==
  TLCEval([f \in 1..c.f |-> TLCEval([ch \in 1..c.c |-> TLCEval([a \in 1..c.kh |-> TLCEval([b \in 1..c.kw |->
     SumF(TLCEval([t \in (1..c.h) \X (1..c.w) |->
            LET o == (t[1] - 1)*c.sh + a - c.ph
                p == (t[2] - 1)*c.sw + b - c.pw
            IN IF o \in 1..DeconvOH(c) /\ p \in 1..DeconvOW(c) THEN d[f][o][p] * x[ch][t[1]][t[2]] ELSE 0]))])])])])

DeconvBwdX(K, d, c) ==
  TLCEval([ch \in 1..c.c |-> TLCEval([i \in 1..c.h |-> TLCEval([j \in 1..c.w |->
     SumF(TLCEval([t \in (1..c.f) \X (1..c.kh) \X (1..c.kw) |->
            LET o == (i - 1)*c.sh + t[2] - c.ph
                p == (j - 1)*c.sw + t[3] - c.pw
            IN IF o \in 1..DeconvOH(c) /\ p \in 1..DeconvOW(c) THEN d[t[1]][o][p] * K[t[1]][ch][t[2]][t[3]] ELSE 0]))])])])

\* ---------- max-pool ---------------------------------------------------------------
Window(c, oh, ow) == {<<(oh - 1)*c.sh + k, (ow - 1)*c.sw + l>> : k \in 1..c.kh, l \in 1..c.kw}
PoolPre(x, c) ==
  TLCEval([ch \in 1..c.c |-> TLCEval([oh \in 1..PoolOH(c) |-> TLCEval([ow \in 1..PoolOW(c) |->
     LET W == Window(c, oh, ow)
     IN  CHOOSE m \in {x[ch][q[1]][q[2]] : q \in W} : \A q \in W : x[ch][q[1]][q[2]] <= m])])])
\* No window has two equal maxima (the property quantifies away from ties).
PoolTieFree(x, c) ==
  LET pre == PoolPre(x, c) IN
  \A ch \in 1..c.c, oh \in 1..PoolOH(c), ow \in 1..PoolOW(c) :
     LET W == Window(c, oh, ow) IN Cardinality({q \in W : x[ch][q[1]][q[2]] = pre[ch][oh][ow]}) = 1
\* Mechanism: the upstream gradient is routed to the position of the maximum.
PoolBwdX(x, g, c) ==
  LET pre == PoolPre(x, c) IN
  TLCEval([ch \in 1..c.c |-> TLCEval([i \in 1..c.h |-> TLCEval([j \in 1..c.w |->
     SumF(TLCEval([t \in (1..PoolOH(c)) \X (1..PoolOW(c)) |->
            IF i - (t[1] - 1)*c.sh \in 1..c.kh /\ j - (t[2] - 1)*c.sw \in 1..c.kw /\ x[ch][i][j] = pre[ch][t[1]][t[2]]
              THEN g[ch][t[1]][t[2]] ELSE 0]))])])])

\* ---------- dense -------------------------------------------------------------------
DensePre(x, W, b) == TLCEval([i \in 1..Len(W) |-> SumF(TLCEval([j \in 1..Len(x) |-> W[i][j] * x[j]])) + b[i]])
DenseBwdW(x, d) == Outer(d, x)
DenseBwdX(W, d) == Dot(Transpose(W), d)

\* ---------- generic interface over a layer record ---------------------------------------
\* params: [K |-> kernels] for conv/deconv, [W |-> weights, b |-> bias (zeros when the layer has none)] for dense
Pre(c, params, x) ==
  CASE c.kind = "conv"   -> ConvPre(x, params.K, c)
    [] c.kind = "deconv" -> DeconvPre(x, params.K, c)
    [] c.kind = "pool"   -> PoolPre(x, c)
    [] c.kind = "dense"  -> DensePre(x, params.W, params.b)

RankOf(c) == IF c.kind = "dense" THEN 1 ELSE 3
Post(c, pre) == IF c.kind = "pool" THEN pre ELSE UnR(LAMBDA v : Act(c.act, v), RankOf(c), pre)
\* delta = upstream gradient times the activation derivative at the pre-activation
Delta(c, pre, g) ==
  IF c.kind = "pool" THEN g
  ELSE MapR(LAMBDA p, q : ActD(c.act, p) * q, RankOf(c), pre, g)

BwdX(c, params, x, pre, g) ==
  CASE c.kind = "conv"   -> ConvBwdX(params.K, Delta(c, pre, g), c)
    [] c.kind = "deconv" -> DeconvBwdX(params.K, Delta(c, pre, g), c)
    [] c.kind = "pool"   -> PoolBwdX(x, g, c)
    [] c.kind = "dense"  -> DenseBwdX(params.W, Delta(c, pre, g))
BwdW(c, params, x, pre, g) ==
  CASE c.kind = "conv"   -> ConvBwdK(x, Delta(c, pre, g), c)
    [] c.kind = "deconv" -> DeconvBwdK(x, Delta(c, pre, g), c)
    [] c.kind = "pool"   -> <<>>
    [] c.kind = "dense"  -> DenseBwdW(x, Delta(c, pre, g))
BwdB(c, pre, g) == IF c.kind = "dense" THEN Delta(c, pre, g) ELSE <<>>

\* <g, y> for nested sequences of the layer's output rank
Inner(rank, g, y) ==
  LET a == FlatR(rank, g) b == FlatR(rank, y) IN SumF(TLCEval([i \in 1..Len(a) |-> a[i] * b[i]]))

=============================================================================
