---------------------------- MODULE Activation ----------------------------
(***************************************************************************)
(* The activations of src/activation.rs (C07) as terms over the leaf x:    *)
(* the defined function, its derivative (documented form and, for the      *)
(* smooth ones, the symbolic derivative D of the forward term), and the    *)
(* range each must stay in.                                                *)
(***************************************************************************)
EXTENDS Num, TLC

Elementwise == {"relu", "leaky", "sigmoid", "tanh", "linear"}
X == Leaf("x")
Slope == Const(1, 100)                       \* leaky ReLU: 0.01

Forward(a) ==
  CASE a = "relu"    -> Max(X, Zero)
    [] a = "leaky"   -> IfPos(X, X, Mul(Slope, X))
    [] a = "sigmoid" -> Div(One, Add(One, Exp(Neg(X))))
    [] a = "tanh"    -> Tanh(X)
    [] a = "linear"  -> X

\* documented derivative (numerically safe form)
Derivative(a) ==
  CASE a = "relu"    -> IfPos(X, One, Zero)
    [] a = "leaky"   -> IfPos(X, One, Slope)
    [] a = "sigmoid" -> Mul(Forward("sigmoid"), Sub(One, Forward("sigmoid")))
    [] a = "tanh"    -> Div(One, Sq(Cosh(X)))
    [] a = "linear"  -> One

\* derivative obtained mechanically from the forward term (valid away from the kink at 0 and for moderate |x|)
SymbolicDerivative(a) == D(Forward(a), "x")

\* closed range the forward value must lie in: <<lo, hi>> as terms, or <<>> if unbounded
Range(a) ==
  CASE a = "sigmoid" -> <<Zero, One>>
    [] a = "tanh"    -> <<Const(-1, 1), One>>
    [] OTHER         -> <<>>
\* closed range of the derivative
DerivativeRange(a) ==
  CASE a = "sigmoid" -> <<Zero, Const(1, 4)>>
    [] a = "tanh"    -> <<Zero, One>>
    [] a \in {"relu", "leaky", "linear"} -> <<Zero, One>>

\* is x = 0 a kink of the activation (derivative not demanded there)
HasKinkAtZero(a) == a \in {"relu", "leaky"}
=============================================================================
