CONSTANTS
  Configs <- DummySet
SPECIFICATION TraceSpec
INVARIANTS NoLeak PrefixOK ReduceIgnoresSchedule HistoriesOK DescentOK ExactlyOnce
CONSTRAINT Progress
POSTCONDITION TraceAccepted
CHECK_DEADLOCK FALSE
