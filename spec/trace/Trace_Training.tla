---------------------------- MODULE Trace_Training ----------------------------
(***************************************************************************)
(* Trace specification for Network::learn / validate.                      *)
(*                                                                         *)
(* The trace is the ndjson event log written by the `verif` hooks of       *)
(* src/network.rs during real runs (harness driver `record training`),     *)
(* preceded per run by one driver event `Net` carrying the arguments the   *)
(* driver passed (n, batch, epochs, validation, tolerance) and which layer *)
(* positions own a training flag (from the architecture, not from the      *)
(* implementation).                                                        *)
(*                                                                         *)
(* Every hook event is matched with the Training action of the same name   *)
(* and its logged fields are compared with the specification's state.      *)
(* Steps of the model that the code does not log -- a task being picked    *)
(* up by a worker, a validation chunk being evaluated, the stop check      *)
(* deciding to continue -- are taken silently, each enabled only by        *)
(* looking ahead at the next logged event, so the trace spec stays         *)
(* deterministic and finite.                                               *)
(***************************************************************************)
EXTENDS Training, Json, IOUtils

Rec == ndJsonDeserialize(IOEnv.TRACE)

VARIABLES l,        \* next event to consume
          lossOf    \* loss bit pattern logged by each finished sample task of the current batch
tvars == <<vars, l, lossOf>>

ToBool(s) == [i \in 1..Len(s) |-> s[i] = 1]

Dummy == [n |-> 1, b |-> 1, e |-> 1, hasval |-> FALSE, tol |-> 1, nval |-> 0, chunk |-> 64, workers |-> 1,
          flagged |-> <<TRUE>>, vals |-> {}]
DummySet == {Dummy}

TraceInit ==
  /\ l = 1 /\ lossOf = <<>> /\ TLCSet(7, 1)
  /\ P = Dummy
  /\ pc = "idle" /\ epoch = 0 /\ bi = 0
  /\ started = {} /\ finished = <<>> /\ red = 0 /\ accG = <<>> /\ accL = <<>>
  /\ w = <<>> /\ elog = <<>> /\ trainLoss = <<>> /\ valLoss = <<>> /\ valAcc = <<>>
  /\ flags = AllOff(P) /\ saved = FALSE /\ caller = "none" /\ vpend = {} /\ vseen = {}

Has(e)     == l <= Len(Rec) /\ Rec[l].event = e
IsEvent(e) == Has(e) /\ l' = l + 1
r == Rec[l]

\* ---- driver event: a new run on a fresh network ---------------------------------------
TraceNet ==
  /\ IsEvent("Net") /\ pc \in {"idle", "done", "vdone"}
  /\ P' = [n |-> r.n, b |-> r.batch, e |-> r.epochs, hasval |-> r.has_val, tol |-> r.tol, nval |-> r.nval,
           chunk |-> 64, workers |-> r.n, flagged |-> ToBool(r.flagged), vals |-> {}]
  /\ pc' = "idle" /\ epoch' = 0 /\ bi' = 0
  /\ started' = {} /\ finished' = <<>> /\ red' = 0 /\ accG' = <<>> /\ accL' = <<>>
  /\ w' = <<>> /\ elog' = <<>> /\ trainLoss' = <<>> /\ valLoss' = <<>> /\ valAcc' = <<>>
  /\ flags' = [i \in 1..Len(r.flagged) |-> FALSE] /\ saved' = FALSE /\ caller' = "none" /\ vpend' = {} /\ vseen' = {}
  /\ lossOf' = <<>>

\* ---- hook events -----------------------------------------------------------------------------
TraceLearnBegin ==
  /\ IsEvent("LearnBegin") /\ LearnBegin
  /\ r.n = P.n /\ r.batch = P.b /\ r.epochs = P.e /\ r.has_val = P.hasval /\ (P.hasval => r.tol = P.tol)
  /\ ToBool(r.flags) = flags'
  /\ UNCHANGED lossOf

TraceBatch ==
  /\ IsEvent("Batch") /\ BatchBegin
  /\ r.epoch = epoch /\ r.len = BatchLen(P, bi) /\ ToBool(r.flags) = flags
  /\ lossOf' = [s \in BatchOf(P, bi) |-> -1]

TraceSampleDone ==
  /\ IsEvent("SampleDone") /\ SampleDone(r.sample + 1)
  /\ r.epoch = epoch
  /\ lossOf' = [lossOf EXCEPT ![r.sample + 1] = r.loss_bits]

\* The k-th reduced result is the one of the k-th sample of the batch (its logged loss identifies it).
TraceReduce ==
  /\ IsEvent("Reduce") /\ Reduce
  /\ r.epoch = epoch
  /\ r.loss_bits = lossOf[First(P, bi) + red]
  /\ UNCHANGED lossOf

TraceUpdate ==
  /\ IsEvent("Update") /\ Update
  /\ r.stepnr = epoch
  /\ UNCHANGED lossOf

TraceEpochEnd ==
  /\ IsEvent("EpochEnd") /\ EpochEnd
  /\ r.epoch = epoch
  /\ UNCHANGED lossOf

TraceValidateEnter ==
  /\ IsEvent("ValidateEnter") /\ ValidateEnter
  /\ r.n = P.nval
  /\ ToBool(r.flags_before) = flags
  /\ ToBool(r.flags_during) = flags'
  /\ UNCHANGED lossOf

TraceValidateExit ==
  /\ IsEvent("ValidateExit") /\ ValidateExit
  /\ ToBool(r.flags_after) = flags'
  /\ UNCHANGED lossOf

TraceValPush ==
  /\ IsEvent("ValPush") /\ ValPush(r.loss_bits)
  /\ r.epoch = epoch /\ r.len_val = Len(valLoss') /\ r.len_acc = Len(valAcc')
  /\ UNCHANGED lossOf

\* the code reports that it stops: the stop condition must hold
TraceStop ==
  /\ IsEvent("Stop") /\ StopCheck /\ StopNow
  /\ r.epoch = epoch
  /\ UNCHANGED lossOf

TraceLearnEnd ==
  /\ IsEvent("LearnEnd") /\ LearnEnd
  /\ ToBool(r.flags) = flags'
  /\ r.len_train = Len(trainLoss) /\ r.len_val = Len(valLoss) /\ r.len_acc = Len(valAcc)
  /\ UNCHANGED lossOf

\* a user-level validate call announced by the driver
TraceUserValidate ==
  /\ IsEvent("UserValidate") /\ UserValidate
  /\ UNCHANGED lossOf

\* ---- silent steps (look-ahead keeps them deterministic) ----------------------------------------------
SilentStart ==
  /\ Has("SampleDone") /\ SampleStart(r.sample + 1)
  /\ UNCHANGED <<l, lossOf>>
SilentChunk ==
  /\ Has("ValidateExit") /\ vpend # {} /\ ValidateChunk(CHOOSE c \in vpend : \A d \in vpend : c <= d)
  /\ UNCHANGED <<l, lossOf>>
\* the stop check that lets training continue / end at the budget is not logged:
\* the next event is the next epoch's first Batch, or LearnEnd; in both cases the stop condition must NOT hold
SilentStopCheck ==
  /\ (Has("Batch") \/ Has("LearnEnd")) /\ pc = "stopcheck" /\ ~StopNow /\ StopCheck
  /\ (Has("Batch") => pc' = "batch") /\ (Has("LearnEnd") => pc' = "end")
  /\ UNCHANGED <<l, lossOf>>

TraceNext ==
  \/ TraceNet \/ TraceLearnBegin \/ TraceBatch \/ TraceSampleDone \/ TraceReduce \/ TraceUpdate \/ TraceEpochEnd
  \/ TraceValidateEnter \/ TraceValidateExit \/ TraceValPush \/ TraceStop \/ TraceLearnEnd \/ TraceUserValidate
  \/ SilentStart \/ SilentChunk \/ SilentStopCheck

TraceSpec == TraceInit /\ [][TraceNext]_tvars

\* remember the furthest position reached (single worker)
Progress == TLCSet(7, IF l > TLCGet(7) THEN l ELSE TLCGet(7))

TraceAccepted ==
  LET d == TLCGet(7) IN
  IF d = Len(Rec) + 1 THEN TRUE
  ELSE Print(<<"TRACE_REJECTED", d, IF d <= Len(Rec) THEN ToJson(Rec[d]) ELSE "eof">>, FALSE)
=============================================================================
