---------------------------- MODULE Trace_C14 ----------------------------
(***************************************************************************)
(* Trace specification: a recorded run of the real `Tensor::reshape` /     *)
(* `flatten` (harness driver `record reshape`) is accepted iff every       *)
(* logged operation is a step of ReshapeSM with the logged outcome, shape  *)
(* and row-major contents.                                                 *)
(***************************************************************************)
EXTENDS ReshapeSM, Json, IOUtils

Rec == ndJsonDeserialize(IOEnv.TRACE)

VARIABLE l
tvars == <<vars, l>>

TraceInit == /\ l = 1
             /\ T = Identity(<<1>>) /\ start = <<1>> /\ hist = <<>>

IsEvent(e) == l <= Len(Rec) /\ Rec[l].event = e /\ l' = l + 1

TraceReset ==
  /\ IsEvent("Reset")
  /\ T' = Identity(Rec[l].shape) /\ start' = Rec[l].shape /\ hist' = <<>>

Logged(r) ==
  /\ hist'[Len(hist')].outcome = r.outcome
  /\ T'.shape = r.shape
  /\ r.dims = r.shape
  /\ GetFlat(T') = r.flat

TraceReshape == IsEvent("Reshape") /\ DoReshape(Rec[l].to) /\ Logged(Rec[l])
TraceFlatten == IsEvent("Flatten") /\ DoFlatten /\ Logged(Rec[l])

\* other library activity (a training run that completed, one that aborted half-way, a validation pass, batch
\* prediction, a training run in progress on another thread) is a stuttering step: the contract of a tensor does not
\* depend on the history of the rest of the library
TraceOther == IsEvent("Other") /\ UNCHANGED vars

TraceNext == TraceOther \/ TraceReset \/ TraceReshape \/ TraceFlatten
TraceSpec == TraceInit /\ [][TraceNext]_tvars

TraceAccepted ==
  LET d == TLCGet("stats").diameter IN
  IF d - 1 = Len(Rec) THEN TRUE
  ELSE Print(<<"TRACE_REJECTED", d, IF d <= Len(Rec) THEN ToJson(Rec[d]) ELSE "eof">>, FALSE)
=============================================================================
