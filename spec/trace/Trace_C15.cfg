CONSTANTS
  MaxDim = 1000
  Depth = 1000000
  Seeds = {1}
SPECIFICATION TraceSpec
INVARIANTS RefusedIffMismatch
POSTCONDITION TraceAccepted
CHECK_DEADLOCK FALSE
