CONSTANTS
  WithViews = FALSE
  MaxDim = 1000
  MaxCount = 100000
  Depth = 1000000
SPECIFICATION TraceSpec
INVARIANTS RowMajorPreserved ShapeMatchesData
POSTCONDITION TraceAccepted
CHECK_DEADLOCK FALSE
