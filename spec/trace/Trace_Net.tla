---------------------------- MODULE Trace_Net ----------------------------
(***************************************************************************)
(* Trace specification for the network builder and the numeric dataflow:   *)
(* a recorded session with the real API (harness driver `record net`:      *)
(* random architectures larger than the bounded instances enumerate,       *)
(* random integer weights and inputs) is accepted iff                      *)
(*   - every builder call has the outcome and the announced shapes the     *)
(*     contract prescribes (AcceptsInput / NewLayer / MarkFlatten),        *)
(*   - every Connect / Loopback call -- valid or not (indices out of range, *)
(*     reversed, shapes that do not fit, duplicates, loops over blocks) --  *)
(*     has the contract's outcome, and a refused call changes nothing,      *)
(*   - every logged forward pass equals Forward of Network.tla on the      *)
(*     network built so far (every layer's output, exactly),               *)
(*   - every logged backward pass equals Backward (when the point is free  *)
(*     of ReLU kinks and pool ties).                                       *)
(* One event = one action; the abstract state is the network record.       *)
(***************************************************************************)
EXTENDS Network, Json, IOUtils

Rec == ndJsonDeserialize(IOEnv.TRACE)

VARIABLES l, net
tvars == <<l, net>>

Empty(input) == [input |-> input, layers |-> <<>>, connect |-> {}, skipacc |-> "add", loops |-> {}, loopacc |-> "mean"]
TraceInit == l = 1 /\ net = Empty(<<1>>)

IsEvent(e) == l <= Len(Rec) /\ Rec[l].event = e /\ l' = l + 1
r == Rec[l]

PrevOut == IF net.layers = <<>> THEN net.input ELSE net.layers[Len(net.layers)].out
Val1(t) == [shape |-> t.shape, data |-> t.data, den |-> 1]

TraceNew == IsEvent("New") /\ net' = Empty(r.input)

\* builder call: accepted with the announced shapes, or rejected, exactly as the contract says
TraceAdd ==
  /\ IsEvent("Add")
  /\ LET P == PrevOut first == net.layers = <<>> IN
     IF AcceptsInput(r.kind, P, first)
       THEN LET L0 == NewLayer(r.kind, r.hp, P) IN
            /\ Fits(L0.cfg)                      \* the driver only issues configurations inside the quantifier
            /\ r.outcome = "ok" /\ r.in = L0.in /\ r.out = L0.out
            /\ net' = [net EXCEPT !.layers = Append(MarkFlatten(net.layers, r.kind), L0 @@ [params |-> r.params])]
       ELSE r.outcome = "panic" /\ net' = net

\* a feedback block added through Network::feedback: accepted with the announced shapes of the block, or rejected
TraceAddBlock ==
  /\ IsEvent("AddBlock")
  /\ LET P == PrevOut IN
     IF BlockAccepted(r.items, P)
       THEN LET B0 == NewBlock(r.items, P, r.loops, r.inskips, r.outskips, r.acc)
                B  == [B0 EXCEPT !.inner = [k \in 1..Len(B0.inner) |-> B0.inner[k] @@ [params |-> r.params[k]]]]
            IN /\ r.outcome = "ok" /\ r.in = B.in /\ r.out = B.out
               /\ net' = [net EXCEPT !.layers = Append(net.layers, B)]
       ELSE r.outcome = "panic" /\ net' = net

\* connect(from, to) -- the whole contract: accepted iff both layers exist, from <= to, the inputs of the two layers hold
\* the same number of elements, and `to` is not yet the target of a connection; a refused call changes nothing.
ConnectValid(a, b) ==
  /\ a \in 1..Len(net.layers) /\ b \in 1..Len(net.layers) /\ a <= b
  /\ Count(net.layers[a].in) = Count(net.layers[b].in)
  /\ ~ \E p \in net.connect : p[1] = b
TraceConnect ==
  /\ IsEvent("Connect")
  /\ IF ConnectValid(r.from, r.to)
       THEN r.outcome = "ok" /\ net' = [net EXCEPT !.connect = @ \cup {<<r.to, r.from>>}]
       ELSE r.outcome = "panic" /\ net' = net

\* loopback(outof, into, k, inskips): accepted iff both layers exist, into <= outof, what `outof` produces has the SHAPE
\* `into` consumes, no loop leaves `outof` yet and no feedback block lies in the range; a refused call changes nothing.
LoopValid(a, b) ==
  /\ a \in 1..Len(net.layers) /\ b \in 1..Len(net.layers) /\ a <= b
  /\ net.layers[a].in = net.layers[b].out
  /\ ~ \E lp \in net.loops : lp.outof = b
  /\ \A i \in a..b : net.layers[i].kind # "fb"
TraceLoopback ==
  /\ IsEvent("Loopback")
  /\ IF LoopValid(r.into, r.outof)
       THEN /\ r.outcome = "ok"
            /\ net' = [net EXCEPT !.loops = @ \cup {[outof |-> r.outof, into |-> r.into, iterations |-> r.iterations, inskips |-> r.inskips]}]
       ELSE r.outcome = "panic" /\ net' = net

\* set_activation(layer, act): replaces the activation of a dense / convolution / deconvolution layer; refused for
\* max-pool layers, feedback blocks and indices out of range
TraceSetActivation ==
  /\ IsEvent("SetActivation")
  /\ IF r.layer \in 1..Len(net.layers) /\ net.layers[r.layer].kind \in {"dense", "conv", "deconv"}
       THEN r.outcome = "ok" /\ net' = [net EXCEPT !.layers[r.layer].cfg.act = r.act]
       ELSE r.outcome = "panic" /\ net' = net

TraceSetAcc == IsEvent("SetAcc") /\ net' = [net EXCEPT !.skipacc = r.skip, !.loopacc = r.loop]

TraceForward ==
  /\ IsEvent("Forward") /\ UNCHANGED net
  /\ LET st == Forward(net, Val1(r.x))
         \* entry i of the vector `forward` returns is the value passed on after layer i -- which, when layer i+1 is
         \* the target of a skip connection, is the accumulated input that layer processes (it is what backward reads)
         want(i) == IF i < Len(net.layers) /\ (\E p \in net.connect : p[1] = i + 1) THEN st.ins[i + 1] ELSE st.acts[i + 1]
     IN
     \A i \in 1..Len(net.layers) :
        IF /\ want(i).shape = r.posts[i].shape
           /\ want(i).data = r.posts[i].data
           /\ want(i).den = 1
          THEN TRUE
          ELSE Print(<<"FORWARD_DIFFERS", "event", l, "layer", i, "specification", want(i).data, "logged", r.posts[i].data>>, FALSE)

TraceBackward ==
  /\ IsEvent("Backward") /\ UNCHANGED net
  /\ LET X == Val1(r.x) IN
     KinkFree(net, X) =>
       LET B == Backward(net, X, Val1(r.g)) IN
       \A i \in 1..Len(net.layers) :
          net.layers[i].kind # "pool" =>
            /\ B.grads[i].dw = r.grads[i].dw
            /\ net.layers[i].cfg.bias => B.grads[i].db = r.grads[i].db

TraceNext == TraceNew \/ TraceAdd \/ TraceAddBlock \/ TraceSetActivation \/ TraceConnect \/ TraceLoopback \/ TraceSetAcc \/ TraceForward \/ TraceBackward
TraceSpec == TraceInit /\ [][TraceNext]_tvars

TraceAccepted ==
  LET d == TLCGet("stats").diameter IN
  IF d - 1 = Len(Rec) THEN TRUE
  ELSE Print(<<"TRACE_REJECTED", d, IF d <= Len(Rec) THEN Rec[d].event ELSE "eof">>, FALSE)
=============================================================================
