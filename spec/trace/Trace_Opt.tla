---------------------------- MODULE Trace_Opt ----------------------------
(***************************************************************************)
(* Trace specification for optimizer slot addressing: between two `Update` *)
(* events the logged `OptUpdate` events must be exactly the slots the      *)
(* specification assigns to the architecture, in order, with the step      *)
(* number of the step.                                                     *)
(***************************************************************************)
EXTENDS OptSlots, Json, IOUtils, TLC

Rec == ndJsonDeserialize(IOEnv.TRACE)

VARIABLES l, arch, remaining, opt
tvars == <<l, arch, remaining, opt>>

TraceInit == l = 1 /\ arch = <<>> /\ remaining = <<>> /\ opt = [kind |-> "none", lr_bits |-> 0]

IsEvent(e) == l <= Len(Rec) /\ Rec[l].event = e /\ l' = l + 1
r == Rec[l]

\* a new run: every slot of the previous step must have been used
\* the driver announces the architecture and the optimizer it attached with set_optimizer
TraceNet    == IsEvent("Net") /\ remaining = <<>> /\ arch' = r.layers /\ remaining' = <<>> /\ opt' = r.optimizer
TraceUpdate == IsEvent("Update") /\ remaining = <<>> /\ remaining' = ExpectedSlots(arch, r.stepnr) /\ UNCHANGED <<arch, opt>>
\* every step of every parameter tensor -- also inside every feedback block -- is a step of THAT optimizer
TraceOpt ==
  /\ IsEvent("OptUpdate") /\ remaining # <<>>
  /\ LET want == Head(remaining) IN
     r.layer = want.layer /\ r.filter = want.filter /\ r.bias = want.bias /\ r.stepnr = want.stepnr
  /\ r.kind = opt.kind /\ r.lr_bits = opt.lr_bits
  /\ remaining' = Tail(remaining) /\ UNCHANGED <<arch, opt>>
TraceEnd    == IsEvent("End") /\ remaining = <<>> /\ UNCHANGED <<arch, remaining, opt>>

TraceNext == TraceNet \/ TraceUpdate \/ TraceOpt \/ TraceEnd
TraceSpec == TraceInit /\ [][TraceNext]_tvars

TraceAccepted ==
  LET d == TLCGet("stats").diameter IN
  IF d - 1 = Len(Rec) THEN TRUE
  ELSE Print(<<"TRACE_REJECTED", d, IF d <= Len(Rec) THEN ToJson(Rec[d]) ELSE "eof">>, FALSE)
=============================================================================
