---------------------------- MODULE Trace_Opt ----------------------------
(***************************************************************************)
(* Trace specification for optimizer slot addressing: between two `Update` *)
(* events the logged `OptUpdate` events must be exactly the slots the      *)
(* specification assigns to the architecture, in order, with the step      *)
(* number of the step.                                                     *)
(***************************************************************************)
EXTENDS OptSlots, Json, IOUtils, TLC

Rec == ndJsonDeserialize(IOEnv.TRACE)

VARIABLES l, arch, remaining
tvars == <<l, arch, remaining>>

TraceInit == l = 1 /\ arch = <<>> /\ remaining = <<>>

IsEvent(e) == l <= Len(Rec) /\ Rec[l].event = e /\ l' = l + 1
r == Rec[l]

\* a new run: every slot of the previous step must have been used
TraceNet    == IsEvent("Net") /\ remaining = <<>> /\ arch' = r.layers /\ remaining' = <<>>
TraceUpdate == IsEvent("Update") /\ remaining = <<>> /\ remaining' = ExpectedSlots(arch, r.stepnr) /\ UNCHANGED arch
TraceOpt ==
  /\ IsEvent("OptUpdate") /\ remaining # <<>>
  /\ LET want == Head(remaining) IN
     r.layer = want.layer /\ r.filter = want.filter /\ r.bias = want.bias /\ r.stepnr = want.stepnr
  /\ remaining' = Tail(remaining) /\ UNCHANGED arch
TraceEnd    == IsEvent("End") /\ remaining = <<>> /\ UNCHANGED <<arch, remaining>>

TraceNext == TraceNet \/ TraceUpdate \/ TraceOpt \/ TraceEnd
TraceSpec == TraceInit /\ [][TraceNext]_tvars

TraceAccepted ==
  LET d == TLCGet("stats").diameter IN
  IF d - 1 = Len(Rec) THEN TRUE
  ELSE Print(<<"TRACE_REJECTED", d, IF d <= Len(Rec) THEN ToJson(Rec[d]) ELSE "eof">>, FALSE)
=============================================================================
