---------------------------- MODULE Trace_C15 ----------------------------
(***************************************************************************)
(* Trace specification for the element-wise arithmetic state machine: a    *)
(* recorded run of the real in-place operations is accepted iff each       *)
(* logged operation is the corresponding ArithSM action with the logged    *)
(* outcome (ok / refused) and the logged resulting tensor.                 *)
(***************************************************************************)
EXTENDS ArithSM, Json, IOUtils

Rec == ndJsonDeserialize(IOEnv.TRACE)

VARIABLE l
tvars == <<vars, l>>

TraceInit == /\ l = 1
             /\ acc = Mk(<<1>>, 1) /\ start = acc /\ hist = <<>> /\ final = FALSE

IsEvent(e) == l <= Len(Rec) /\ Rec[l].event = e /\ l' = l + 1

TraceReset ==
  /\ IsEvent("Reset")
  /\ acc' = Rec[l].tensor /\ start' = Rec[l].tensor /\ hist' = <<>> /\ final' = FALSE

Logged(r) ==
  /\ hist'[Len(hist')].outcome = r.outcome
  /\ acc' = r.result

TraceBinary ==
  /\ IsEvent("Binary")
  /\ LET r == Rec[l] IN
     /\ IF r.op = "hadamard" THEN Hadamard(r.arg, r.k) ELSE Binary(r.op, r.arg)
     /\ Logged(r)

\* other library activity (a training run that completed, one that aborted half-way, a validation pass, batch
\* prediction, a training run in progress on another thread) is a stuttering step: the contract of a tensor does not
\* depend on the history of the rest of the library
TraceOther == IsEvent("Other") /\ UNCHANGED vars

TraceNext == TraceOther \/ TraceReset \/ TraceBinary
TraceSpec == TraceInit /\ [][TraceNext]_tvars

TraceAccepted ==
  LET d == TLCGet("stats").diameter IN
  IF d - 1 = Len(Rec) THEN TRUE
  ELSE Print(<<"TRACE_REJECTED", d, IF d <= Len(Rec) THEN ToJson(Rec[d]) ELSE "eof">>, FALSE)
=============================================================================
