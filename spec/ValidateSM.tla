---------------------------- MODULE ValidateSM ----------------------------
(***************************************************************************)
(* validate / predict_batch as parallel maps with ordered collection, and  *)
(* the aggregation they compute (C12).                                     *)
(*                                                                         *)
(* The inputs are split into consecutive chunks of ChunkSize; chunks are   *)
(* evaluated in any order (Eval), results are collected by chunk index     *)
(* (Collect).  predict_batch returns predict(x_i) in input order; validate *)
(* returns the mean loss and the mean accuracy, where a sample scores      *)
(*   - arg-max agreement when the output layer is soft-max ("argmax"),     *)
(*   - otherwise |p - t| < tol for one output, or the fraction of outputs  *)
(*     within tol for several ("tol").                                     *)
(* Predictions/targets are integer vectors (an identity output layer makes *)
(* the prediction equal to the input), so the expected means are exact     *)
(* rationals [n, d].                                                       *)
(***************************************************************************)
EXTENDS Tensor, TLC

CONSTANTS Ns,          \* data-set sizes
          Lens,        \* output lengths (powers of two keep per-sample fractions exact)
          ChunkSize,   \* 64 in the code
          Seeds

VARIABLES ds, pend, res, out, pc
vars == <<ds, pend, res, out, pc>>

\* predictions with a unique maximum per sample (for the arg-max rule)
Uniq(seed, i, j) == (i * 3 + j * 5 + seed) % 7

NChunks(n) == (n + ChunkSize - 1) \div ChunkSize
ChunkOf(n, c) == ((c - 1) * ChunkSize + 1)..(IF c * ChunkSize < n THEN c * ChunkSize ELSE n)

\* TIED predictions (tol2 = 7): every sample predicts the same vector whose maximum is attained at the first AND the last
\* position; the labels cycle through all positions.  "Arg-max agreement" is agreement with a single-valued arg-max: whichever
\* of the tied positions the rule picks, only the samples labelled with THAT position score (MeanAcc for the last position,
\* MeanAccFirst for the first).
Tied(len, j) == IF j = 1 \/ j = len THEN 9 ELSE j

\* targets for the arg-max rule: strict one-hot (tol2 = 1), graded scores with a unique maximum (tol2 = 3) or signed ones (tol2 = 5; the
\* tolerance is irrelevant for this rule, so the field doubles as the target style)
MkData(n, len, rule, tol2, obj, seed) ==
  [n |-> n, len |-> len, rule |-> rule, tol2 |-> tol2, obj |-> obj, seed |-> seed,
   preds   |-> [i \in 1..n |-> [j \in 1..len |-> IF rule = "argmax" THEN (IF tol2 = 7 THEN Tied(len, j) ELSE Uniq(seed, i, j))
                                                  ELSE Val(seed, i * 11 + j)]],
   targets |-> [i \in 1..n |-> [j \in 1..len |->
                  IF rule = "argmax"
                    THEN (IF tol2 = 1 THEN (IF j = ((i * 2 + seed) % len) + 1 THEN 1 ELSE 0)
                          ELSE IF tol2 = 7 THEN (IF j = ((i + seed) % len) + 1 THEN 1 ELSE 0)
                          ELSE IF tol2 = 3 THEN Uniq(seed + 2, i + 1, j + 3)
                          ELSE Uniq(seed + 2, i + 1, j + 3) - 4)        \* signed scores (e.g. a -1 / +1 coding): most are negative
                  ELSE Val(seed + 3, i * 13 + j) \div 2]]]

Datasets ==
  {MkData(n, len, rule, tol2, obj, seed) :
     n \in Ns, len \in Lens, rule \in {"argmax", "tol"}, tol2 \in {1, 3, 5, 7}, obj \in {"ae", "mse"}, seed \in Seeds}

\* ---- per-sample scores -------------------------------------------------------------
Within(d, i, j) == 2 * Abs(d.preds[i][j] - d.targets[i][j]) < d.tol2
\* numerator of the sample's accuracy over the denominator d.len (1 for the 0/1 rules)
AccNum(d, i) ==
  IF d.rule = "argmax" THEN (IF ArgMax(d.targets[i]) = ArgMax(d.preds[i]) THEN d.len ELSE 0)
  ELSE IF d.len = 1 THEN (IF Within(d, i, 1) THEN 1 ELSE 0)
  ELSE Cardinality({j \in 1..d.len : Within(d, i, j)})
\* numerator of the sample's loss over the denominator d.len (AE: integer, scaled by len)
LossNum(d, i) ==
  IF d.obj = "ae" THEN d.len * SumF([j \in 1..d.len |-> Abs(d.targets[i][j] - d.preds[i][j])])
  ELSE SumF([j \in 1..d.len |-> (d.targets[i][j] - d.preds[i][j]) * (d.targets[i][j] - d.preds[i][j])])

MeanLoss(d) == [n |-> SumF([i \in 1..d.n |-> LossNum(d, i)]), d |-> d.len * d.n]
MeanAcc(d)  == [n |-> SumF([i \in 1..d.n |-> AccNum(d, i)]),  d |-> d.len * d.n]
\* the same under the OTHER single-valued tie rule (first maximum, for predictions and targets alike)
ArgMaxFirst(v) == CHOOSE i \in 1..Len(v) : (\A j \in 1..Len(v) : v[j] <= v[i]) /\ (\A j \in 1..(i - 1) : v[j] < v[i])
MeanAccFirst(d) ==
  IF d.rule # "argmax" THEN MeanAcc(d)
  ELSE [n |-> SumF([i \in 1..d.n |-> IF ArgMaxFirst(d.targets[i]) = ArgMaxFirst(d.preds[i]) THEN d.len ELSE 0]), d |-> d.len * d.n]

\* ---- the parallel map ------------------------------------------------------------------
Init == /\ ds \in Datasets
        /\ pend = 1..NChunks(ds.n) /\ res = <<>> /\ out = <<>> /\ pc = "map"

\* chunk c is evaluated (by any worker, at any time): one result per sample, in the chunk's own order
Eval(c) ==
  /\ pc = "map" /\ c \in pend
  /\ pend' = pend \ {c}
  /\ res' = res @@ (c :> [k \in 1..Cardinality(ChunkOf(ds.n, c)) |-> (c - 1) * ChunkSize + k])
  /\ UNCHANGED <<ds, out, pc>>

RECURSIVE Concat(_, _, _)
Concat(r, c, last) == IF c > last THEN <<>> ELSE r[c] \o Concat(r, c + 1, last)

\* results are collected by chunk index, independent of the evaluation order
Collect ==
  /\ pc = "map" /\ pend = {}
  /\ out' = Concat(res, 1, NChunks(ds.n))
  /\ pc' = "done"
  /\ UNCHANGED <<ds, pend, res>>

Next == (\E c \in 1..NChunks(ds.n) : Eval(c)) \/ Collect
Spec == Init /\ [][Next]_vars

\* predict_batch / validate see every input exactly once, in input order, for every evaluation order
InOrder == pc = "done" => out = [i \in 1..ds.n |-> i]
=============================================================================
