---------------------------- MODULE Num ----------------------------
(***************************************************************************)
(* Term mode: real-valued formulas as data.                                *)
(*                                                                         *)
(* TLC has no reals.  Where a property is about a documented real formula  *)
(* (optimizer update rules, objectives, smooth activations) the            *)
(* specification does not evaluate it: it BUILDS it as a term over named   *)
(* leaves and rational constants.  The harness evaluates terms with IEEE   *)
(* single-precision operations (harness/src/terms.rs, the trusted          *)
(* evaluator) and compares with the implementation.  The specification     *)
(* owns the formula, the state it reads and writes, the case analysis and  *)
(* -- through D below -- the derivative.                                   *)
(***************************************************************************)
EXTENDS Integers, Sequences, FiniteSets

Leaf(name)  == [op |-> "leaf", name |-> name]
Const(n, d) == [op |-> "const", n |-> n, d |-> d]        \* the rational n/d (d > 0)
Zero == Const(0, 1)
One  == Const(1, 1)
Two  == Const(2, 1)

IsConst(t, n) == t.op = "const" /\ t.n = n /\ t.d = 1

\* smart constructors fold the trivial cases, so that derivatives stay small and the evaluator never
\* meets 0 * (-inf)
Add(a, b) == IF IsConst(a, 0) THEN b ELSE IF IsConst(b, 0) THEN a ELSE [op |-> "add", a |-> a, b |-> b]
Sub(a, b) == IF IsConst(b, 0) THEN a ELSE [op |-> "sub", a |-> a, b |-> b]
Neg(a)    == IF IsConst(a, 0) THEN a ELSE [op |-> "neg", a |-> a]
Mul(a, b) == IF IsConst(a, 0) \/ IsConst(b, 0) THEN Zero
             ELSE IF IsConst(a, 1) THEN b ELSE IF IsConst(b, 1) THEN a ELSE [op |-> "mul", a |-> a, b |-> b]
Div(a, b) == IF IsConst(a, 0) THEN Zero ELSE IF IsConst(b, 1) THEN a ELSE [op |-> "div", a |-> a, b |-> b]
Sq(a)     == [op |-> "sq", a |-> a]                       \* a * a
Sqrt(a)   == [op |-> "sqrt", a |-> a]
Exp(a)    == [op |-> "exp", a |-> a]
Ln(a)     == [op |-> "ln", a |-> a]
Abs(a)    == [op |-> "abs", a |-> a]
Sign(a)   == [op |-> "sign", a |-> a]                     \* -1, 0, 1
Tanh(a)   == [op |-> "tanh", a |-> a]
Cosh(a)   == [op |-> "cosh", a |-> a]
Max(a, b) == [op |-> "max", a |-> a, b |-> b]
Min(a, b) == [op |-> "min", a |-> a, b |-> b]
PowI(a, k) == [op |-> "powi", a |-> a, b |-> k]           \* a ^ k for an integer-valued term k
\* IF c > 0 THEN a ELSE b
IfPos(c, a, b) == [op |-> "ifpos", c |-> c, a |-> a, b |-> b]
Clamp(x, lo, hi) == Max(lo, Min(hi, x))

UnaryOps  == {"neg", "sq", "sqrt", "exp", "ln", "abs", "sign", "tanh", "cosh"}
BinaryOps == {"add", "sub", "mul", "div", "max", "min", "powi"}

\* ---------- leaves of a term ------------------------------------------------------
RECURSIVE Leaves(_)
Leaves(t) ==
  CASE t.op = "leaf"  -> {t.name}
    [] t.op = "const" -> {}
    [] t.op \in UnaryOps  -> Leaves(t.a)
    [] t.op \in BinaryOps -> Leaves(t.a) \cup Leaves(t.b)
    [] t.op = "ifpos" -> Leaves(t.c) \cup Leaves(t.a) \cup Leaves(t.b)

\* ---------- substitution of leaves by terms ------------------------------------------
RECURSIVE Subst(_, _)
\* env: function from (some) leaf names to terms
Subst(t, env) ==
  CASE t.op = "leaf"  -> IF t.name \in DOMAIN env THEN env[t.name] ELSE t
    [] t.op = "const" -> t
    [] t.op \in UnaryOps  -> [t EXCEPT !.a = Subst(t.a, env)]
    [] t.op \in BinaryOps -> [t EXCEPT !.a = Subst(t.a, env), !.b = Subst(t.b, env)]
    [] t.op = "ifpos" -> [t EXCEPT !.c = Subst(t.c, env), !.a = Subst(t.a, env), !.b = Subst(t.b, env)]

\* ---------- symbolic derivative d t / d leaf x ---------------------------------------------
\* (away from the kinks of abs / max / min / ifpos, where the one-sided branch is taken)
RECURSIVE D(_, _)
D(t, x) ==
  CASE t.op = "leaf"  -> IF t.name = x THEN One ELSE Zero
    [] t.op = "const" -> Zero
    [] t.op = "add"   -> Add(D(t.a, x), D(t.b, x))
    [] t.op = "sub"   -> Sub(D(t.a, x), D(t.b, x))
    [] t.op = "neg"   -> Neg(D(t.a, x))
    [] t.op = "mul"   -> Add(Mul(D(t.a, x), t.b), Mul(t.a, D(t.b, x)))
    [] t.op = "div"   -> Sub(Div(D(t.a, x), t.b), Mul(Div(t.a, Sq(t.b)), D(t.b, x)))
    [] t.op = "sq"    -> Mul(Mul(Two, t.a), D(t.a, x))
    [] t.op = "sqrt"  -> Div(D(t.a, x), Mul(Two, Sqrt(t.a)))
    [] t.op = "exp"   -> Mul(Exp(t.a), D(t.a, x))
    [] t.op = "ln"    -> Div(D(t.a, x), t.a)
    [] t.op = "abs"   -> Mul(Sign(t.a), D(t.a, x))
    [] t.op = "sign"  -> Zero
    [] t.op = "tanh"  -> Mul(Sub(One, Sq(Tanh(t.a))), D(t.a, x))
    [] t.op = "cosh"  -> Mul(Div(Sub(Exp(t.a), Exp(Neg(t.a))), Two), D(t.a, x))
    [] t.op = "max"   -> IfPos(Sub(t.a, t.b), D(t.a, x), D(t.b, x))
    [] t.op = "min"   -> IfPos(Sub(t.b, t.a), D(t.a, x), D(t.b, x))
    [] t.op = "powi"  -> Mul(Mul(t.b, PowI(t.a, Sub(t.b, One))), D(t.a, x))
    [] t.op = "ifpos" -> IfPos(t.c, D(t.a, x), D(t.b, x))

\* sum of a non-empty sequence of terms, left to right
RECURSIVE SumTerms(_)
SumTerms(s) == IF Len(s) = 1 THEN s[1] ELSE Add(SumTerms(SubSeq(s, 1, Len(s) - 1)), s[Len(s)])
=============================================================================
