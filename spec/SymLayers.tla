---------------------------- MODULE SymLayers ----------------------------
(***************************************************************************)
(* Term-mode view of single layers (C01 with smooth / leaky activations):  *)
(* the layer's forward pass is built SYMBOLICALLY from the same index      *)
(* formulas as Layers.tla (taps, padding, stride, dilation), composed with *)
(* the activation's defining term, and the gradients are obtained by the   *)
(* symbolic differentiator:                                                *)
(*     L = sum_o g_o * act(pre_o)        dL/dx_i = D(L, x_i)   dL/dk_j     *)
(* Leaves: x1.. (input, row-major), k1.. (kernels row-major / dense W then *)
(* bias), g1.. (upstream gradient, row-major).                             *)
(***************************************************************************)
EXTENDS Layers
A == INSTANCE Activation

XL(i) == A!Leaf("x" \o ToString(i))
KL(i) == A!Leaf("k" \o ToString(i))
GL(i) == A!Leaf("g" \o ToString(i))

XIdx(c, ch, i, j) == ((ch - 1) * c.h + (i - 1)) * c.w + j
KIdx(c, f, ch, a, b) == (((f - 1) * c.c + (ch - 1)) * c.kh + (a - 1)) * c.kw + b

SumSeqT(s) == IF Len(s) = 0 THEN A!Zero ELSE A!SumTerms(s)

\* ---- pre-activation terms, one per output element, row-major ------------------------------------
ConvPreT(c, f, oh, ow) ==
  SumSeqT([t \in 1..(c.c * c.kh * c.kw) |->
     LET ch == ((t - 1) \div (c.kh * c.kw)) + 1
         a  == (((t - 1) % (c.kh * c.kw)) \div c.kw) + 1
         b  == ((t - 1) % c.kw) + 1
         i  == TapH(c, oh, a) - c.ph
         j  == TapW(c, ow, b) - c.pw
     IN IF i \in 1..c.h /\ j \in 1..c.w THEN A!Mul(KL(KIdx(c, f, ch, a, b)), XL(XIdx(c, ch, i, j))) ELSE A!Zero])

DeconvPreT(c, f, o, p) ==
  SumSeqT([t \in 1..(c.c * c.h * c.w) |->
     LET ch == ((t - 1) \div (c.h * c.w)) + 1
         i  == (((t - 1) % (c.h * c.w)) \div c.w) + 1
         j  == ((t - 1) % c.w) + 1
         a  == o + c.ph - (i - 1) * c.sh
         b  == p + c.pw - (j - 1) * c.sw
     IN IF a \in 1..c.kh /\ b \in 1..c.kw THEN A!Mul(XL(XIdx(c, ch, i, j)), KL(KIdx(c, f, ch, a, b))) ELSE A!Zero])

\* max-pool: the maximum over the window as nested Max terms (row-major over the window, so that the term is a
\* function of the configuration alone)
RECURSIVE MaxFold(_)
MaxFold(q) == IF Len(q) = 1 THEN q[1] ELSE A!Max(q[1], MaxFold(Tail(q)))
PoolPreT(c, ch, oh, ow) ==
  MaxFold([t \in 1..(c.kh * c.kw) |->
     LET k == ((t - 1) \div c.kw) + 1
         l == ((t - 1) % c.kw) + 1
     IN XL(XIdx(c, ch, (oh - 1) * c.sh + k, (ow - 1) * c.sw + l))])

\* dense: c.c inputs, c.f outputs; parameters: W row-major, then the bias (if any)
DensePreT(c, i) ==
  LET s == SumSeqT([j \in 1..c.c |-> A!Mul(KL((i - 1) * c.c + j), XL(j))])
  IN IF c.bias THEN A!Add(s, KL(c.f * c.c + i)) ELSE s

OutCount(c) == Count(OutShape(c))
PreT(c) ==
  LET o == OutShape(c) IN
  [n \in 1..OutCount(c) |->
     CASE c.kind = "dense"  -> DensePreT(c, n)
       [] c.kind = "conv"   -> ConvPreT(c, ((n - 1) \div (o[2] * o[3])) + 1, (((n - 1) % (o[2] * o[3])) \div o[3]) + 1, ((n - 1) % o[3]) + 1)
       [] c.kind = "deconv" -> DeconvPreT(c, ((n - 1) \div (o[2] * o[3])) + 1, (((n - 1) % (o[2] * o[3])) \div o[3]) + 1, ((n - 1) % o[3]) + 1)
       [] c.kind = "pool"   -> PoolPreT(c, ((n - 1) \div (o[2] * o[3])) + 1, (((n - 1) % (o[2] * o[3])) \div o[3]) + 1, ((n - 1) % o[3]) + 1)]

\* activation applied to a term
ActT(act, t) == A!Subst(A!Forward(act), [x |-> t])
PostT(c, act) == LET p == PreT(c) IN [n \in 1..Len(p) |-> ActT(act, p[n])]

\* the scalar the gradients are derivatives of
LossT(c, act) == LET y == PostT(c, act) IN SumSeqT([n \in 1..Len(y) |-> A!Mul(GL(n), y[n])])

NX(c) == IF c.kind = "dense" THEN c.c ELSE c.c * c.h * c.w
NK(c) == IF c.kind = "dense" THEN c.f * c.c + (IF c.bias THEN c.f ELSE 0) ELSE IF c.kind = "pool" THEN 0 ELSE c.f * c.c * c.kh * c.kw

GradX(c, act) == LET l == LossT(c, act) IN [i \in 1..NX(c) |-> A!D(l, "x" \o ToString(i))]
GradK(c, act) == LET l == LossT(c, act) IN [j \in 1..NK(c) |-> A!D(l, "k" \o ToString(j))]
=============================================================================
