---------------------------- MODULE Random ----------------------------
(***************************************************************************)
(* The minstd linear congruential generator of src/random.rs and the       *)
(* single-precision arithmetic `generate` and `shuffle` perform on its     *)
(* state, in integer arithmetic that fits TLC's 32-bit Int (C18).          *)
(*                                                                         *)
(*   state' = 48271 * state mod (2^31 - 1)          (Schrage's method)     *)
(*   ratio  = fl(state') / fl(2^31 - 2)             fl = u64 -> f32        *)
(*          = RNE24(state') / 2^31   exactly, because fl(2^31 - 2) = 2^31  *)
(*   generate(min, max) = fl(fl(ratio * fl(max - min)) + min)              *)
(*   shuffle: for i = 0..len-1: j = floor(generate(0, len)); swap(i, j)    *)
(*                                                                         *)
(* Contract (what C18 demands): the value lies in [min, max], the index    *)
(* below len, for EVERY state -- including the 63 states whose successor   *)
(* rounds up to 2^31 (ratio = 1).                                          *)
(***************************************************************************)
EXTENDS Integers, Sequences, TLC

M == 2147483647                      \* 2^31 - 1
RECURSIVE Pow2(_)
Pow2(k) == IF k = 0 THEN 1 ELSE 2 * Pow2(k - 1)          \* k <= 30

\* 48271 * x mod M without exceeding 2^31: q = M div 48271 = 44488, r = M mod 48271 = 3399
NextState(x) ==
  LET t == 48271 * (x % 44488) - 3399 * (x \div 44488) IN IF t < 0 THEN t + M ELSE t

\* a * b mod M by shift-and-add (all intermediates below 2^31)
AddMod(x, y) == IF x >= M - y THEN x - (M - y) ELSE x + y
RECURSIVE MulMod(_, _)
MulMod(a, b) == IF b = 0 THEN 0
                ELSE LET h == MulMod(a, b \div 2) d == AddMod(h, h) IN IF b % 2 = 1 THEN AddMod(d, a % M) ELSE d
\* the state whose successor is n (48271 is invertible modulo the prime M)
InvMultiplier == 1899818559
PrevState(n) == MulMod(InvMultiplier, n)

\* number of bits of n (n >= 1)
RECURSIVE Bits(_)
Bits(n) == IF n < 2 THEN 1 ELSE 1 + Bits(n \div 2)

\* n rounded to 24 significant bits, round-to-nearest-even; result as [m |-> mantissa < 2^24 (or = 2^24), e |-> exponent]
\* denoting m * 2^e.  (u64 -> f32 conversion.)
RNE24(n) ==
  LET b == Bits(n) IN
  IF b <= 24 THEN [m |-> n, e |-> 0]
  ELSE LET s == b - 24                     \* bits to drop (1..7 for n < 2^31)
           p == Pow2(s)
           q == n \div p   r == n % p   half == p \div 2
           up == r > half \/ (r = half /\ q % 2 = 1)
       IN [m |-> IF up THEN q + 1 ELSE q, e |-> s]

\* ratio = 1 exactly for the states whose successor n satisfies n >= 2^31 - 64 (mantissa rounds up to 2^24 at exponent 7)
RatioIsOne(n) == LET f == RNE24(n) IN f.m = 16777216 /\ f.e = 7

\* floor(fl(ratio * len)) for 1 <= len <= 64: ratio = m * 2^(e-31) with m < 2^24 + 1; m * len < 2^31 is rounded to 24 bits
IndexRaw(n, len) ==
  LET f == RNE24(n)
      g == RNE24(f.m * len)                 \* product mantissa rounded to 24 bits: g.m * 2^(g.e)
      sh == 31 - f.e - g.e                  \* value = g.m * 2^(-sh), sh >= 0
  IN IF f.m = 0 \/ sh >= 31 THEN 0 ELSE g.m \div Pow2(sh)

\* contract: the index is always a valid position
Index(n, len) == IF IndexRaw(n, len) < len THEN IndexRaw(n, len) ELSE len - 1

\* one generator step used by shuffle on a vector of length len: returns <<new state, index>>
Step(x, len) == LET n == NextState(x) IN <<n, Index(n, len)>>

Swap(v, i, j) == [v EXCEPT ![i] = v[j], ![j] = v[i]]

RECURSIVE ShuffleFrom(_, _, _)
\* positions are 1-based here: swap(i, j+1)
ShuffleFrom(v, x, i) ==
  IF i > Len(v) THEN [v |-> v, state |-> x]
  ELSE LET s == Step(x, Len(v)) IN ShuffleFrom(Swap(v, i, s[2] + 1), s[1], i + 1)
Shuffle(v, x) == ShuffleFrom(v, x, 1)

IsPermutation(a, b) ==
  /\ Len(a) = Len(b)
  /\ \A k \in 1..Len(a) : \E j \in 1..Len(b) : a[k] = b[j]
  /\ \A k \in 1..Len(b) : \E j \in 1..Len(a) : b[k] = a[j]

\* initial state from a 64-bit seed given as three limbs in base 2^31 (2^31 = 1 mod M)
SeedState(a, b, c) == ((((a % M) + (b % M)) % M) + (c % M)) % M
=============================================================================
