---------------------------- MODULE FeedbackSM ----------------------------
(***************************************************************************)
(* Weight tying in feedback blocks (C10).                                  *)
(*                                                                         *)
(* A block's layer list is unrolled `loops` times; the unrolled copies of  *)
(* a layer denote ONE set of shared parameters.  The code keeps a physical *)
(* copy per repetition, updates each copy with its own gradient, and then  *)
(* re-couples the copies with the block's accumulation.  The model keeps   *)
(* one integer per copy (a stand-in for every weight / bias / kernel       *)
(* entry) and lets the gradients be arbitrary.                             *)
(***************************************************************************)
EXTENDS Integers, Sequences, FiniteSets, Folds, Functions, TLC

CONSTANTS MaxLoops, MaxSteps, Grads, Accs

VARIABLES loops, acc, copies, bias, steps
vars == <<loops, acc, copies, bias, steps>>

SumS(s)  == FoldFunction(LAMBDA a, b : a + b, 0, s)
ProdS(s) == FoldFunction(LAMBDA a, b : a * b, 1, s)

\* the value every copy receives when the updated copies u are re-coupled
\* (mean as an exact rational: numerator over the common denominator `loops`)
Couple(kind, u) ==
  CASE kind = "add"      -> SumS(u)
    [] kind = "subtract" -> u[1] - SumS(Tail(u))
    [] kind = "multiply" -> ProdS(u)
    [] kind = "mean"     -> SumS(u)            \* numerator; the denominator is tracked by `scale`

Init ==
  /\ loops \in 1..MaxLoops /\ acc \in Accs
  /\ copies = [c \in 1..loops |-> 2]        \* created as identical clones of one layer
  /\ bias = [c \in 1..loops |-> -1]
  /\ steps = 0

\* one optimizer step (plain descent with unit rate on arbitrary per-copy gradients), then re-coupling of
\* weights AND biases of every copy
Update(g, h) ==
  /\ steps < MaxSteps
  /\ LET uw == [c \in 1..loops |-> copies[c] - g[c]]
         ub == [c \in 1..loops |-> bias[c] - h[c]]
     IN /\ copies' = [c \in 1..loops |-> Couple(acc, uw)]
        /\ bias'   = [c \in 1..loops |-> Couple(acc, ub)]
  /\ steps' = steps + 1
  /\ UNCHANGED <<loops, acc>>

Next == \E g \in [1..loops -> Grads], h \in [1..loops -> Grads] : Update(g, h)
Spec == Init /\ [][Next]_vars

\* C10: all unrolled repetitions hold identical parameters, initially and after every update history
AllCopiesEqual == \A c \in 1..loops : copies[c] = copies[1] /\ bias[c] = bias[1]
Bounded == \A c \in 1..loops : copies[c] \in -200..200 /\ bias[c] \in -200..200   \* keeps products of up to 4 copies inside 32-bit integers
=============================================================================
