---------------------------- MODULE Optimizer ----------------------------
(***************************************************************************)
(* The five optimizers of src/optimizer.rs (C03).                          *)
(*                                                                         *)
(* 1. Update rules: for every kind and option combination the documented   *)
(*    per-element update as a straight-line program over the leaves        *)
(*      w, g (parameter, gradient), the hyper-parameters, stepnr,          *)
(*      and the per-slot state variables (vel / m, v / v, gavg, buf).      *)
(*    An instruction assigns a term to a name, optionally guarded by the   *)
(*    step number (SGDM's first-step rule).                                *)
(* 2. Hyper-parameter validation: zero values are replaced by defaults.    *)
(* 3. The slot state machine: state is kept per (layer, filter, bias)      *)
(*    slot; a step reads and writes the state of its own slot only.        *)
(***************************************************************************)
EXTENDS Num, TLC

Kinds == {"sgd", "sgdm", "adam", "adamw", "rmsprop"}

w == Leaf("w")   g == Leaf("g")   lr == Leaf("lr")   decay == Leaf("decay")   stepnr == Leaf("stepnr")

I(name, term)          == [target |-> name, term |-> term, guard |-> "always"]
IG(name, term, guard)  == [target |-> name, term |-> term, guard |-> guard]      \* guard: "always" | "first" | "later"

\* optional L2 decay folded into the gradient
DecayStep(o) == IF o.decay THEN <<I("g", Add(g, Mul(decay, w)))>> ELSE <<>>

\* The documented update of one element.  o = [decay, momentum, centered : BOOLEAN] (which optional parts are on).
Program(kind, o) ==
  CASE kind = "sgd" ->
         DecayStep(o) \o <<I("w", Sub(w, Mul(lr, g)))>>
    [] kind = "sgdm" ->
         DecayStep(o) \o
         << IG("vel", Add(Mul(Leaf("vel"), Leaf("momentum")), Mul(Sub(One, Leaf("dampening")), g)), "later"),
            IG("vel", g, "first"),
            IG("g", Leaf("vel"), "later"),
            I("w", Sub(w, Mul(lr, g))) >>
    [] kind \in {"adam", "adamw"} ->
         (IF kind = "adam" THEN DecayStep(o) ELSE <<I("w", Sub(w, Mul(Mul(lr, decay), w)))>>) \o
         << I("m", Add(Mul(Leaf("m"), Leaf("beta1")), Mul(g, Sub(One, Leaf("beta1"))))),
            I("v", Add(Mul(Leaf("v"), Leaf("beta2")), Mul(Sq(g), Sub(One, Leaf("beta2"))))),
            I("mh", Div(Leaf("m"), Sub(One, PowI(Leaf("beta1"), stepnr)))),
            I("vh", Div(Leaf("v"), Sub(One, PowI(Leaf("beta2"), stepnr)))),
            I("w", Sub(w, Div(Mul(lr, Leaf("mh")), Add(Sqrt(Leaf("vh")), Leaf("eps"))))) >>
    [] kind = "rmsprop" ->
         DecayStep(o) \o
         << I("v", Add(Mul(Leaf("alpha"), Leaf("v")), Mul(Sub(One, Leaf("alpha")), Sq(g)))),
            I("vv", Leaf("v")) >> \o
         (IF o.centered
            THEN << I("gavg", Add(Mul(Leaf("alpha"), Leaf("gavg")), Mul(Sub(One, Leaf("alpha")), g))),
                    \* v - gavg^2 is a variance: never negative in exact arithmetic (Cauchy-Schwarz); rounding must not make it so
                    I("vv", Max(Sub(Leaf("v"), Sq(Leaf("gavg"))), Zero)) >>
            ELSE <<>>) \o
         (IF o.momentum
            THEN << I("buf", Add(Mul(Leaf("momentum"), Leaf("buf")), Div(g, Add(Sqrt(Leaf("vv")), Leaf("eps"))))),
                    I("w", Sub(w, Mul(lr, Leaf("buf")))) >>
            ELSE << I("w", Sub(w, Div(Mul(lr, g), Add(Sqrt(Leaf("vv")), Leaf("eps"))))) >>)

\* state variables kept per slot (zero-initialised by `validate`)
StateVars(kind) ==
  CASE kind = "sgd" -> {}
    [] kind = "sgdm" -> {"vel"}
    [] kind \in {"adam", "adamw"} -> {"m", "v"}
    [] kind = "rmsprop" -> {"v", "gavg", "buf"}

\* hyper-parameters and the default substituted for a zero value by `validate`: [name |-> <<n, d>>]
Defaults(kind) ==
  CASE kind = "sgd"  -> [lr |-> <<1, 10>>]
    [] kind = "sgdm" -> [lr |-> <<1, 10>>, momentum |-> <<9, 10>>]
    [] kind \in {"adam", "adamw"} -> [lr |-> <<1, 1000>>, beta1 |-> <<9, 10>>, beta2 |-> <<999, 1000>>, eps |-> <<1, 100000000>>]
    [] kind = "rmsprop" -> [lr |-> <<1, 100>>, alpha |-> <<99, 100>>, eps |-> <<1, 100000000>>]
\* effective value of hyper-parameter `name` given the value <<n, d>> passed to create
Effective(kind, name, val) == IF val[1] = 0 /\ name \in DOMAIN Defaults(kind) THEN Defaults(kind)[name] ELSE val

\* ---------- every state variable the program writes is one it owns; it reads only its own slot's leaves ----------
Temporaries == {"mh", "vh", "vv"}
WellFormed(kind, o) ==
  LET P == Program(kind, o) IN
  /\ \A i \in 1..Len(P) : P[i].target \in {"w", "g"} \cup StateVars(kind) \cup Temporaries
  /\ \A i \in 1..Len(P) : Leaves(P[i].term) \subseteq
        {"w", "g", "lr", "decay", "stepnr", "momentum", "dampening", "beta1", "beta2", "eps", "alpha"} \cup StateVars(kind) \cup Temporaries
  /\ P[Len(P)].target = "w"
=============================================================================
