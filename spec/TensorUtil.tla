---------------------------- MODULE TensorUtil ----------------------------
(***************************************************************************)
(* Tensor utilities of src/tensor.rs beyond the listed properties          *)
(* (specification growth): one_hot, argmax (tie rule), pad3d, upsample3d,  *)
(* resize (average pooling), and the dropout mask -- which is a pure       *)
(* function of the element count and the rate, because Tensor::dropout     *)
(* re-seeds the generator with the constant 12345 on every call.           *)
(***************************************************************************)
EXTENDS Tensor
R == INSTANCE Random

OneHot(v, n) == [i \in 1..n |-> IF i = v + 1 THEN 1 ELSE 0]           \* defined for v < n; otherwise the call panics

\* pad3d(data, <<H, W>>): zero padding, centred when the target is larger (floor of half the difference on top/left),
\* cropped from the end when it is smaller
Pad3d(t, H, W) ==
  LET h == Len(t[1]) w == Len(t[1][1])
      dh == IF H > h THEN (H - h) \div 2 ELSE 0
      dw == IF W > w THEN (W - w) \div 2 ELSE 0
  IN [c \in 1..Len(t) |-> [i \in 1..H |-> [j \in 1..W |->
        IF i - dh \in 1..Min2(h, H) /\ j - dw \in 1..Min2(w, W) THEN t[c][i - dh][j - dw] ELSE 0]]]

\* upsample3d(x, <<H, W>>, <<sh, sw>>): x[c][i][j] lands on (i*sh, j*sw) (0-based), everything else is zero
Upsample3d(t, H, W, sh, sw) ==
  [c \in 1..Len(t) |-> [i \in 1..H |-> [j \in 1..W |->
     IF (i - 1) % sh = 0 /\ (j - 1) % sw = 0 /\ ((i - 1) \div sh) + 1 <= Len(t[1]) /\ ((j - 1) \div sw) + 1 <= Len(t[1][1])
       THEN t[c][((i - 1) \div sh) + 1][((j - 1) \div sw) + 1] ELSE 0]]]

\* resize by average pooling with integer ratios old \div new (defined when every new dimension is <= the old one)
Resize(t, nc, nh, nw) ==
  LET rc == Len(t) \div nc  rh == Len(t[1]) \div nh  rw == Len(t[1][1]) \div nw IN
  [c \in 1..nc |-> [i \in 1..nh |-> [j \in 1..nw |->
     [n |-> SumF([q \in (1..rc) \X (1..rh) \X (1..rw) |-> t[(c - 1) * rc + q[1]][(i - 1) * rh + q[2]][(j - 1) * rw + q[3]]]),
      d |-> rc * rh * rw]]]]

\* ---- regrouping accessors ------------------------------------------------------------
\* get_triple(outputs) is GetTriple of Tensor.tla: a vector is regrouped row-major into c x h x w (a rank-3 tensor is returned unchanged, whatever
\* `outputs` says); quadruple_to_vec_triple splits a rank-4 tensor along its first axis; hadamard3d is the element-wise
\* product times a scalar (here 1 / 2^k, so the product of small integers stays exact)
SplitQuad(q) == [f \in 1..Len(q) |-> q[f]]
Hadamard3d(a, b, k) == [c \in 1..Len(a) |-> [i \in 1..Len(a[1]) |-> [j \in 1..Len(a[1][1]) |-> [n |-> a[c][i][j] * b[c][i][j], d |-> R!Pow2(k)]]]]

\* ---- dropout mask -----------------------------------------------------------------
RECURSIVE StatesFrom(_, _)
StatesFrom(x, n) == IF n = 0 THEN <<>> ELSE LET y == R!NextState(x) IN <<y>> \o StatesFrom(y, n - 1)
\* element i (row-major) is zeroed iff the i-th draw of generate(0, 1) from seed 12345 is below the rate a / 2^k
\* (the draw is exactly RNE24(state) / 2^31, so the comparison is an integer comparison)
Dropped(state, a, k) ==
  LET f == R!RNE24(state) IN
  IF R!RatioIsOne(state) THEN FALSE
  ELSE f.m * R!Pow2(f.e) < a * R!Pow2(31 - k)
DropoutMask(n, a, k) == LET s == StatesFrom(12345, n) IN [i \in 1..n |-> Dropped(s[i], a, k)]
=============================================================================
