---------------------------- MODULE OptSlots ----------------------------
(***************************************************************************)
(* Slot addressing of the optimizer state inside Network::update (C03):    *)
(* which (layer, filter, bias) slot each parameter tensor uses.            *)
(*                                                                         *)
(* set_optimizer allocates state per REVERSED layer position, per filter,  *)
(* and separately for weights and bias; update must address exactly these  *)
(* slots, each once per step, with the step number of the step.            *)
(* A feedback block owns its own optimizer state, addressed the same way   *)
(* over its unrolled layers.                                               *)
(*                                                                         *)
(* arch: sequence of [kind, filters, bias] (kind = "fb" has `inner`, the   *)
(* unrolled list of such records).                                         *)
(***************************************************************************)
EXTENDS Integers, Sequences

Slot(i, f, b, k) == [layer |-> i, filter |-> f, bias |-> b, stepnr |-> k]

RECURSIVE Filters(_, _, _, _)
Filters(i, f, n, k) == IF f >= n THEN <<>> ELSE <<Slot(i, f, FALSE, k)>> \o Filters(i, f + 1, n, k)

\* slots used by the layers in REVERSE order; position i counts from the last layer (0-based, as in the code)
RECURSIVE SlotsRev(_, _, _)
SlotsRev(layers, i, k) ==
  IF i >= Len(layers) THEN <<>>
  ELSE LET L == layers[Len(layers) - i] IN
       (CASE L.kind = "dense" -> <<Slot(i, 0, FALSE, k)>> \o (IF L.bias THEN <<Slot(i, 0, TRUE, k)>> ELSE <<>>)
          [] L.kind \in {"conv", "deconv"} -> Filters(i, 0, L.filters, k)
          [] L.kind = "pool" -> <<>>
          [] L.kind = "fb" -> SlotsRev(L.inner, 0, k))
       \o SlotsRev(layers, i + 1, k)

ExpectedSlots(arch, k) == SlotsRev(arch, 0, k)
=============================================================================
