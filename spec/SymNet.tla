---------------------------- MODULE SymNet ----------------------------
(***************************************************************************)
(* Term-mode view of whole networks (C01 / C02 / C11 with smooth and       *)
(* leaky activations): chains of dense / convolution / deconvolution       *)
(* layers and feedback blocks (without skips), composed SYMBOLICALLY.      *)
(*                                                                         *)
(* A network is unrolled into U layers (a feedback block contributes its   *)
(* layer list `loops` times; the copies share one parameter group).  The   *)
(* forward pass is a PROGRAM of let-bindings, one per output element,      *)
(*     a<u>_<n> := act_u( pre_u,n( a<u-1>_* , k<u>_* ) )                    *)
(* built from the same tap formulas as Layers.tla (through SymLayers) --   *)
(* a0_* is the input, row-major; flattening between spatial and dense      *)
(* layers is the row-major identity on these indices.                      *)
(*                                                                         *)
(* The objective is L = sum_n d<U>_n * a<U>_n for an upstream gradient     *)
(* d<U>_*.  The gradient program is the chain rule with every local        *)
(* derivative obtained by the symbolic differentiator D:                   *)
(*     gk<u>_<j>  := sum_n d<u>_n * D(a<u>_n, k<u>_j)                       *)
(*     d<u-1>_<i> := sum_n d<u>_n * D(a<u>_n, a<u-1>_i)                     *)
(* so gk<u>_j is dL/dk<u>_j with k<u>_j an independent variable of the     *)
(* unrolled network -- the per-copy gradient a feedback block reports.     *)
(***************************************************************************)
EXTENDS SymLayers

AName(u, i) == "a" \o ToString(u) \o "_" \o ToString(i)
IName(u, i) == "i" \o ToString(u) \o "_" \o ToString(i)          \* the input layer u PROCESSES (after skip accumulation)
EName(u, i) == "e" \o ToString(u) \o "_" \o ToString(i)          \* gradient of the objective w.r.t. that input
KName(u, j) == "k" \o ToString(u) \o "_" \o ToString(j)
DName(u, i) == "d" \o ToString(u) \o "_" \o ToString(i)

\* function from the names prefix1 .. prefix<n> to F(1) .. F(n)
NameMap(prefix, n, F(_)) ==
  [name \in {prefix \o ToString(i) : i \in 1..n} |-> F(CHOOSE i \in 1..n : name = prefix \o ToString(i))]

\* ---- building a consistent chain from hyper-parameters ---------------------------------------
\* s: [kind, f, kh, kw, sh, sw, ph, pw, dh, dw, bias, act]; the input dimensions come from the previous output
MkCfg(prev, s) ==
  IF s.kind = "dense"
    THEN [kind |-> "dense", c |-> Prod(prev), h |-> 1, w |-> 1, f |-> s.f, kh |-> 1, kw |-> 1, sh |-> 1, sw |-> 1,
          ph |-> 0, pw |-> 0, dh |-> 1, dw |-> 1, act |-> "linear", bias |-> s.bias]
    ELSE [kind |-> s.kind, c |-> prev[1], h |-> prev[2], w |-> prev[3], f |-> IF s.kind = "pool" THEN 1 ELSE s.f, kh |-> s.kh, kw |-> s.kw,
          sh |-> s.sh, sw |-> s.sw, ph |-> s.ph, pw |-> s.pw, dh |-> s.dh, dw |-> s.dw, act |-> "linear", bias |-> FALSE]

RECURSIVE MkChain(_, _)
\* sequence of [cfg, act] for the hyper-parameter list `specs` applied to an input of shape `prev`
MkChain(prev, specs) ==
  IF specs = <<>> THEN <<>>
  ELSE LET c == MkCfg(prev, specs[1])
           a == IF specs[1].kind = "pool" THEN "linear" ELSE specs[1].act        \* a max-pool layer has no activation
       IN <<[cfg |-> c, act |-> a]>> \o MkChain(OutShape(c), Tail(specs))
ChainOut(prev, chain) == IF chain = <<>> THEN prev ELSE OutShape(chain[Len(chain)].cfg)

\* items: <<[kind |-> "layer", spec |-> s]>> or <<[kind |-> "fb", specs |-> <<s..>>, loops |-> k]>>
RECURSIVE MkItems(_, _)
MkItems(prev, items) ==
  IF items = <<>> THEN <<>>
  ELSE LET it == items[1] IN
       IF it.kind = "layer"
         THEN LET ch == MkChain(prev, <<it.spec>>) IN
              <<[kind |-> "layer", l |-> ch[1]]>> \o MkItems(ChainOut(prev, ch), Tail(items))
         ELSE LET ch == MkChain(prev, it.specs) IN
              <<[kind |-> "fb", inner |-> ch, loops |-> it.loops]>> \o MkItems(ChainOut(prev, ch), Tail(items))

\* a block can repeat iff what it produces fits what it consumes
BlockRepeats(prev, it) == it.kind = "layer" \/ Prod(ChainOut(prev, it.inner)) = Prod(prev)
ItemFits(it) == IF it.kind = "layer" THEN Fits(it.l.cfg) ELSE \A q \in 1..Len(it.inner) : Fits(it.inner[q].cfg)

\* ---- unrolling -------------------------------------------------------------------------------
RECURSIVE Repeat(_, _)
Repeat(s, k) == IF k = 0 THEN <<>> ELSE s \o Repeat(s, k - 1)
RECURSIVE Unroll(_, _)
\* sequence of [cfg, act, group]: group identifies the shared parameter set (item index * 100 + inner index)
Unroll(items, at) ==
  IF items = <<>> THEN <<>>
  ELSE LET it == items[1] IN
       (IF it.kind = "layer" THEN <<it.l @@ [group |-> at * 100]>>
        ELSE Repeat([q \in 1..Len(it.inner) |-> it.inner[q] @@ [group |-> at * 100 + q]], it.loops))
       \o Unroll(Tail(items), at + 1)

\* ---- programs ----------------------------------------------------------------------------------
\* outputs of unrolled layer u as terms over a<u-1>_* and k<u>_*
FwdOf(L, u) ==
  LET c == L.cfg
      env == NameMap("x", NX(c), LAMBDA i : A!Leaf(AName(u - 1, i))) @@ NameMap("k", NK(c), LAMBDA j : A!Leaf(KName(u, j)))
      p == PreT(c)
  IN [n \in 1..Len(p) |-> ActT(L.act, A!Subst(p[n], env))]
PreOf(L, u) ==
  LET c == L.cfg
      env == NameMap("x", NX(c), LAMBDA i : A!Leaf(AName(u - 1, i))) @@ NameMap("k", NK(c), LAMBDA j : A!Leaf(KName(u, j)))
      p == PreT(c)
  IN [n \in 1..Len(p) |-> A!Subst(p[n], env)]

\* chain rule through layer u: parameter gradients and the gradient handed to the layer before
GradKOf(L, u, fwd) ==
  [j \in 1..NK(L.cfg) |-> SumSeqT([n \in 1..Len(fwd) |-> A!Mul(A!Leaf(DName(u, n)), A!D(fwd[n], KName(u, j)))])]
GradPrevOf(L, u, fwd) ==
  [i \in 1..NX(L.cfg) |-> SumSeqT([n \in 1..Len(fwd) |-> A!Mul(A!Leaf(DName(u, n)), A!D(fwd[n], AName(u - 1, i)))])]

\* ---- networks with additive skip connections ------------------------------------------------------------
\* connect: set of <<target, source>> over the unrolled layers: the input layer `target` processes is its ordinary input
\* PLUS the input layer `source` processed (source <= target, equal element counts; regrouping between shapes is the
\* row-major identity on the flat index).  Programs, per layer u:
\*     i<u>_k := a<u-1>_k [+ i<s>_k]            a<u>_n := act(pre_n(i<u>_*, k<u>_*))
\*     e<u>_k := sum_n d<u>_n * D(a<u>_n, i<u>_k) + sum over targets t of u: e<t>_k        (reverse order)
\*     d<u-1>_k := e<u>_k                      gk<u>_j := sum_n d<u>_n * D(a<u>_n, k<u>_j)
SourceOf(connect, u) == IF \E p \in connect : p[1] = u THEN (CHOOSE p \in connect : p[1] = u)[2] ELSE 0   \* source < target
TargetsOf(connect, u) == {p[1] : p \in {q \in connect : q[2] = u /\ q[1] # u}}
FwdOfS(L, u) ==
  LET c == L.cfg
      env == NameMap("x", NX(c), LAMBDA i : A!Leaf(IName(u, i))) @@ NameMap("k", NK(c), LAMBDA j : A!Leaf(KName(u, j)))
      p == PreT(c)
  IN [n \in 1..Len(p) |-> ActT(L.act, A!Subst(p[n], env))]
InOfS(L, u, connect) ==
  LET s == SourceOf(connect, u) IN
  [k \in 1..NX(L.cfg) |->
     IF s = 0 THEN A!Leaf(AName(u - 1, k)) ELSE A!Add(A!Leaf(AName(u - 1, k)), A!Leaf(IName(s, k)))]
GradInOfS(L, u, fwd, connect) ==
  LET s == SourceOf(connect, u)
      own(k) == SumSeqT([n \in 1..Len(fwd) |-> A!Mul(A!Leaf(DName(u, n)), A!D(fwd[n], IName(u, k)))])
      ts == TargetsOf(connect, u)
  IN [k \in 1..NX(L.cfg) |->
        LET RECURSIVE Acc(_, _)
            Acc(t, S) == IF S = {} THEN t ELSE LET q == CHOOSE q \in S : \A r \in S : q <= r IN Acc(A!Add(t, A!Leaf(EName(q, k))), S \ {q})
        IN Acc(own(k), ts)]
\* gradient handed to the layer before (self-connections are not generated here)
GradPrevOfS(L, u, connect) == [k \in 1..NX(L.cfg) |-> A!Leaf(EName(u, k))]
ProgramS(un, connect) ==
  [u \in 1..Len(un) |->
     LET L == un[u] fwd == FwdOfS(L, u) IN
     [cfg |-> L.cfg, act |-> L.act, group |-> L.group, nx |-> NX(L.cfg), nk |-> NK(L.cfg), no |-> Len(fwd),
      out |-> OutShape(L.cfg), inp |-> InOfS(L, u, connect), fwd |-> fwd,
      gk |-> [j \in 1..NK(L.cfg) |-> SumSeqT([n \in 1..Len(fwd) |-> A!Mul(A!Leaf(DName(u, n)), A!D(fwd[n], KName(u, j)))])],
      gin |-> GradInOfS(L, u, fwd, connect), gprev |-> GradPrevOfS(L, u, connect)]]

=============================================================================
