---------------------------- MODULE Network ----------------------------
(***************************************************************************)
(* Networks of `neurons` in exact mode: the builder (announced shapes,     *)
(* accept / reject), skip and loop connections, feedback blocks, and the   *)
(* forward / backward dataflow over the layer operators of Layers.tla.     *)
(*                                                                         *)
(* Values: a tensor is [shape, data, den]: `data` holds integers and the   *)
(* tensor denotes data/den (den > 0).  All layer operators are positively  *)
(* homogeneous in their input (Linear/ReLU activations, max-pool), so a    *)
(* common denominator -- introduced only by `mean` accumulation -- is      *)
(* carried along exactly (biases are scaled by it).                        *)
(*                                                                         *)
(* Layer record:                                                           *)
(*   [kind |-> "dense"|"conv"|"deconv"|"pool", cfg |-> Layers config,      *)
(*    in |-> shape, out |-> shape, flatten |-> BOOLEAN, params |-> ...]    *)
(*   [kind |-> "fb", inner |-> <<layer,...>> (one period), loops, inskips, *)
(*    outskips, acc, in, out, flatten]                                     *)
(***************************************************************************)
EXTENDS Layers, TLC

\* ======================= values with a denominator =======================
T1(v, den) == [shape |-> <<Len(v)>>, data |-> v, den |-> den]
T3(t, den) == [shape |-> Dims3(t), data |-> t, den |-> den]
RankT(X) == Len(X.shape)
FlatT(X) == IF RankT(X) = 1 THEN X.data ELSE Flat3(X.data)
\* same row-major sequence, other shape
ReshapeT(X, shape) ==
  IF X.shape = shape THEN X
  ELSE IF Len(shape) = 1 THEN T1(FlatT(X), X.den)
  ELSE T3(Unflat3(FlatT(X), shape[1], shape[2], shape[3]), X.den)
FlattenT(X) == T1(FlatT(X), X.den)
FromFlat(v, shape, den) ==
  IF Len(shape) = 1 THEN T1(v, den) ELSE T3(Unflat3(v, shape[1], shape[2], shape[3]), den)

Gcd(a, b) == CHOOSE g \in 1..(IF a < b THEN a ELSE b) :
               a % g = 0 /\ b % g = 0 /\ \A h \in (g+1)..(IF a < b THEN a ELSE b) : ~(a % h = 0 /\ b % h = 0)
Lcm(a, b) == (a \div Gcd(a, b)) * b
\* X rescaled to denominator den (a multiple of X.den)
Rescale(X, den) == FromFlat(TLCEval([i \in 1..Len(FlatT(X)) |-> FlatT(X)[i] * (den \div X.den)]), X.shape, den)

\* ======================= accumulation (skip / loop / feedback) =======================
\* Acc(kind, x, others): x combined with the tensors in the sequence `others` (all of x's shape)
RECURSIVE LcmAll(_, _)
LcmAll(d, s) == IF s = <<>> THEN d ELSE LcmAll(Lcm(d, Head(s).den), Tail(s))

Accumulate(kind, X, others) ==
  LET k == Len(others) IN
  IF k = 0 THEN X
  ELSE IF kind = "overwrite" THEN others[k]
  ELSE IF kind = "multiply"
    THEN FromFlat(TLCEval([i \in 1..Len(FlatT(X)) |->
                     FoldFunction(LAMBDA a, b : a * b, FlatT(X)[i], TLCEval([j \in 1..k |-> FlatT(others[j])[i]]))]),
                  X.shape,
                  FoldFunction(LAMBDA a, b : a * b, X.den, TLCEval([j \in 1..k |-> others[j].den])))
  ELSE
    LET den == LcmAll(X.den, others)
        xs  == FlatT(Rescale(X, den))
        os  == TLCEval([j \in 1..k |-> FlatT(Rescale(others[j], den))])
        sum(i) == SumF(TLCEval([j \in 1..k |-> os[j][i]]))
    IN CASE kind = "add"      -> FromFlat(TLCEval([i \in 1..Len(xs) |-> xs[i] + sum(i)]), X.shape, den)
         [] kind = "subtract" -> FromFlat(TLCEval([i \in 1..Len(xs) |-> xs[i] - sum(i)]), X.shape, den)
         [] kind = "mean"     -> FromFlat(TLCEval([i \in 1..Len(xs) |-> xs[i] + sum(i)]), X.shape, den * (k + 1))

\* ======================= one primitive layer =======================
\* parameters with the bias scaled by the input's denominator
ScaledParams(L, den) ==
  IF L.kind = "dense" THEN [W |-> L.params.W, b |-> TLCEval([i \in 1..Len(L.params.b) |-> L.params.b[i] * den])]
  ELSE L.params

\* (pre, post) of a primitive layer on input X (flat or spatial, as the code accepts both)
ApplyLayer(L, X) ==
  LET x == IF L.kind = "dense" THEN FlatT(X)
           ELSE IF RankT(X) = 1 THEN Unflat3(X.data, L.in[1], L.in[2], L.in[3]) ELSE X.data
      pre  == Pre(L.cfg, ScaledParams(L, X.den), x)
      post == Post(L.cfg, pre)
      wrap(t) == IF L.kind = "dense" THEN T1(t, X.den) ELSE T3(t, X.den)
  IN [pre |-> wrap(pre), post |-> IF L.flatten THEN FlattenT(wrap(post)) ELSE wrap(post)]

\* ======================= feedback block (C11) =======================
\* Unrolled application of the block's layer list `loops` times with shared parameters.
\*  inskips : every repetition after the first receives Acc(previous output, <<block input>>)
\*  outskips: the block output is Acc(last output, outputs of all earlier repetitions)
RECURSIVE RunInner(_, _, _)
RunInner(inner, k, X) == IF k > Len(inner) THEN X ELSE RunInner(inner, k + 1, ApplyLayer(inner[k], X).post)

RECURSIVE FbReps(_, _, _, _)
\* outs = outputs of the repetitions done so far
FbReps(B, X0, outs, r) ==
  IF r > B.loops THEN outs
  ELSE LET prev == IF r = 1 THEN X0 ELSE outs[r - 1]
           xin  == IF r > 1 /\ B.inskips THEN Accumulate(B.acc, prev, <<X0>>) ELSE prev
       IN FbReps(B, X0, Append(outs, RunInner(B.inner, 1, xin)), r + 1)

FbForward(B, X) ==
  LET outs == FbReps(B, X, <<>>, 1)
      last == outs[B.loops]
      res  == IF B.outskips THEN Accumulate(B.acc, last, SubSeq(outs, 1, B.loops - 1)) ELSE last
  IN IF B.flatten THEN FlattenT(res) ELSE res

\* output of any layer (primitive or block)
LayerOut(L, X) == IF L.kind = "fb" THEN FbForward(L, X) ELSE ApplyLayer(L, X).post

\* ======================= network forward (C02 composition, C16, C17) =======================
\* net = [input, layers, connect (set of <<target, source>>), skipacc, loops (set of records
\*        [outof, into, iterations, inskips]), loopacc]
\* acts[i+1] is the value passed on after layer i (acts[1] = network input); ins[i] the input layer i processed.
SkipSources(net, i) == {p \in net.connect : p[1] = i}

RECURSIVE RunRange(_, _, _, _)
\* plain application of layers from..to (no connections): used for loop re-applications
RunRange(net, from, to, X) ==
  IF from > to THEN X ELSE RunRange(net, from + 1, to, LayerOut(net.layers[from], X))

\* successive outputs of a loop: outs[1] = first output of layer b, then k re-applications
RECURSIVE LoopOuts(_, _, _, _, _)
LoopOuts(net, lp, Xa, outs, t) ==
  IF t > lp.iterations THEN outs
  ELSE LET cur0 == ReshapeT(outs[Len(outs)], net.layers[lp.into].in)
           cur  == IF lp.inskips THEN Accumulate("add", cur0, <<ReshapeT(Xa, cur0.shape)>>) ELSE cur0
       IN LoopOuts(net, lp, Xa, Append(outs, RunRange(net, lp.into, lp.outof, cur)), t + 1)

RECURSIVE FwdFrom(_, _, _)
\* st = [acts |-> <<...>>, ins |-> <<...>>]
FwdFrom(net, st, i) ==
  IF i > Len(net.layers) THEN st
  ELSE
    LET L   == net.layers[i]
        x0  == st.acts[i]
        src == SkipSources(net, i)
        x   == IF src = {} THEN x0
               ELSE LET a == (CHOOSE p \in src : TRUE)[2]     \* at most one source per target
                        \* "the input that was fed to layer a": what layer a processed (its own accumulated input);
                        \* for a = i it is the layer's ordinary input
                        other == IF a = i THEN x0 ELSE st.ins[a]
                    IN Accumulate(net.skipacc, x0, <<ReshapeT(other, x0.shape)>>)
        y0  == LayerOut(L, x)
        lps == {lp \in net.loops : lp.outof = i}
        y   == IF lps = {} THEN y0
               ELSE LET lp == CHOOSE q \in lps : TRUE
                        outs == LoopOuts(net, lp, IF lp.into = i THEN x ELSE st.ins[lp.into], <<y0>>, 1)
                    IN Accumulate(net.loopacc, outs[1], SubSeq(outs, 2, Len(outs)))
    IN FwdFrom(net, [acts |-> Append(st.acts, y), ins |-> Append(st.ins, x)], i + 1)

Forward(net, X) == FwdFrom(net, [acts |-> <<X>>, ins |-> <<>>], 1)
Predict(net, X) == LET st == Forward(net, X) IN st.acts[Len(st.acts)]

\* pre-activations of a sequential network (no connections): what Network::forward returns per layer
RECURSIVE PresFrom(_, _, _)
PresFrom(net, X, i) ==
  IF i > Len(net.layers) THEN <<>>
  ELSE LET L == net.layers[i] IN
       IF L.kind = "fb" THEN <<[shape |-> <<>>, data |-> <<>>, den |-> 1]>> \o PresFrom(net, FbForward(L, X), i + 1)
       ELSE <<ApplyLayer(L, X).pre>> \o PresFrom(net, ApplyLayer(L, X).post, i + 1)

\* ======================= backward (C01 at network level, C16 gradient clause) =======================
\* Reverse walk over a sequential network with additive skip connections.
\* g is the gradient w.r.t. the value passed on after layer i (same shape as acts[i+1]);
\* result: per layer [dw, db] (forward order).  Only for den = 1 (no mean) and primitive layers.
GradShape(g, shape) == IF Len(shape) = 1 THEN (IF Len(g.shape) = 1 THEN g.data ELSE Flat3(g.data))
                       ELSE (IF Len(g.shape) = 1 THEN Unflat3(g.data, shape[1], shape[2], shape[3]) ELSE g.data)

LayerBackward(L, X, G) ==
  \* X: input processed by the layer, G: gradient w.r.t. its post (flat or spatial)
  LET x   == IF L.kind = "dense" THEN FlatT(X)
             ELSE IF RankT(X) = 1 THEN Unflat3(X.data, L.in[1], L.in[2], L.in[3]) ELSE X.data
      pre == Pre(L.cfg, L.params, x)
      g   == GradShape(G, L.out)
  IN [dx |-> IF L.kind = "dense" THEN T1(BwdX(L.cfg, L.params, x, pre, g), 1) ELSE T3(BwdX(L.cfg, L.params, x, pre, g), 1),
      dw |-> BwdW(L.cfg, L.params, x, pre, g),
      db |-> BwdB(L.cfg, pre, g)]

RECURSIVE BwdFrom(_, _, _, _, _)
\* gins[j] = gradient w.r.t. the (accumulated) input processed by layer j, for the layers already walked
BwdFrom(net, st, i, G, acc) ==
  IF i < 1 THEN acc
  ELSE
    LET L  == net.layers[i]
        r  == LayerBackward(L, st.ins[i], G)
        \* gradient w.r.t. the accumulated input of layer i: the direct path plus every additive skip whose
        \* SOURCE is layer i (those targets consumed the input layer i processed)
        skips == {p \in net.connect : p[2] = i /\ p[1] # i}
        extra == [t \in skips |-> ReshapeT(acc.gins[t[1]], r.dx.shape)]
        gA    == IF skips = {} THEN r.dx
                 ELSE FromFlat(TLCEval([n \in 1..Len(FlatT(r.dx)) |->
                                  FlatT(r.dx)[n] + SumF(TLCEval([t \in skips |-> FlatT(extra[t])[n]]))]), r.dx.shape, 1)
        \* a layer connected to itself processes x0 + x0
        gsum  == IF <<i, i>> \in net.connect
                   THEN FromFlat(TLCEval([n \in 1..Len(FlatT(gA)) |-> 2 * FlatT(gA)[n]]), gA.shape, 1) ELSE gA
        acc2 == [grads |-> [acc.grads EXCEPT ![i] = [dw |-> r.dw, db |-> r.db]],
                 gins  |-> [acc.gins EXCEPT ![i] = gA]]
    IN BwdFrom(net, st, i - 1, gsum, acc2)

Backward(net, X, G) ==
  LET st == Forward(net, X)
      n  == Len(net.layers)
      empty == [grads |-> TLCEval([i \in 1..n |-> [dw |-> <<>>, db |-> <<>>]]), gins |-> TLCEval([i \in 1..n |-> T1(<<>>, 1)])]
  IN BwdFrom(net, st, n, G, empty)

\* ======================= gradients are derivatives (checked by TLC on bounded instances) =======================
\* the input layer i actually processes, as the nested sequence its operator works on
LayerInput(L, X) ==
  IF L.kind = "dense" THEN FlatT(X)
  ELSE IF RankT(X) = 1 THEN Unflat3(X.data, L.in[1], L.in[2], L.in[3]) ELSE X.data

\* No ReLU pre-activation is exactly 0 and no pool window has two equal maxima (the properties quantify away from these).
KinkFree(n, X) ==
  LET st == Forward(n, X) IN
  \A i \in 1..Len(n.layers) :
    LET L == n.layers[i] x == LayerInput(L, st.ins[i]) IN
    CASE L.kind = "pool" -> PoolTieFree(x, L.cfg)
      [] L.kind = "fb" -> TRUE
      [] L.cfg.act = "relu" ->
           LET p == FlatR(RankOf(L.cfg), Pre(L.cfg, ScaledParams(L, st.ins[i].den), x)) IN \A k \in 1..Len(p) : p[k] # 0
      [] OTHER -> TRUE

\* <G, Predict(n, X)>
Lnet(n, X, G) == LET y == Predict(n, X) IN SumF(TLCEval([k \in 1..Len(FlatT(y)) |-> FlatT(y)[k] * FlatT(G)[k]]))

\* both networks (same architecture, different parameters) are in the same linear piece on input X:
\* every ReLU pre-activation stays in the closed half-line of its non-zero base value, every pool window keeps its arg-max
SamePattern(n1, n2, X) ==
  LET a == Forward(n1, X) b == Forward(n2, X) IN
  \A i \in 1..Len(n1.layers) :
    LET L1 == n1.layers[i] L2 == n2.layers[i]
        x1 == LayerInput(L1, a.ins[i]) x2 == LayerInput(L2, b.ins[i])
    IN CASE L1.kind = "pool" ->
              LET q1 == PoolPre(x1, L1.cfg) q2 == PoolPre(x2, L2.cfg) IN
              \A ch \in 1..L1.cfg.c, oh \in 1..PoolOH(L1.cfg), ow \in 1..PoolOW(L1.cfg) :
                 \E q \in Window(L1.cfg, oh, ow) : x1[ch][q[1]][q[2]] = q1[ch][oh][ow] /\ x2[ch][q[1]][q[2]] = q2[ch][oh][ow]
         [] L1.kind = "fb" -> TRUE
         [] L1.cfg.act = "relu" ->
              LET p1 == FlatR(RankOf(L1.cfg), Pre(L1.cfg, L1.params, x1))
                  p2 == FlatR(RankOf(L2.cfg), Pre(L2.cfg, L2.params, x2))
              IN \A k \in 1..Len(p1) : (p1[k] > 0 /\ p2[k] >= 0) \/ (p1[k] < 0 /\ p2[k] <= 0)
         [] OTHER -> TRUE

Bump(n, i, P2) == [n EXCEPT !.layers[i].params = P2]
\* d is the derivative of <G, Predict> in the coordinate whose unit perturbations are the parameter records Pp / Pm of layer i
CoordNet(n, X, G, i, Pp, Pm, d) ==
  (SamePattern(n, Bump(n, i, Pp), X) /\ SamePattern(n, Bump(n, i, Pm), X)) =>
     LET l0 == Lnet(n, X, G) IN
     /\ Lnet(Bump(n, i, Pp), X, G) - l0 = d
     /\ l0 - Lnet(Bump(n, i, Pm), X, G) = d

\* every parameter gradient of Backward is the exact derivative (primitive layers, den = 1)
GradOK(n, X, G) ==
  KinkFree(n, X) =>
    LET B == Backward(n, X, G) IN
    \A i \in 1..Len(n.layers) :
      LET L == n.layers[i] P == L.params IN
      CASE L.kind \in {"conv", "deconv"} ->
             \A f \in 1..L.cfg.f, ch \in 1..L.cfg.c, a \in 1..L.cfg.kh, b \in 1..L.cfg.kw :
                CoordNet(n, X, G, i, [K |-> [P.K EXCEPT ![f][ch][a][b] = @ + 1]],
                                     [K |-> [P.K EXCEPT ![f][ch][a][b] = @ - 1]], B.grads[i].dw[f][ch][a][b])
        [] L.kind = "dense" ->
             /\ \A r \in 1..L.cfg.f, c \in 1..L.cfg.c :
                  CoordNet(n, X, G, i, [P EXCEPT !.W[r][c] = @ + 1], [P EXCEPT !.W[r][c] = @ - 1], B.grads[i].dw[r][c])
             /\ L.cfg.bias => \A r \in 1..L.cfg.f :
                  CoordNet(n, X, G, i, [P EXCEPT !.b[r] = @ + 1], [P EXCEPT !.b[r] = @ - 1], B.grads[i].db[r])
        [] OTHER -> TRUE

\* ======================= builder (C08) =======================
IsSpatialKind(k) == k \in {"conv", "deconv", "pool"}

\* Shape announced for the layer's input given the previous output shape P:
\* a flat P feeds a spatial layer as 1 x r x r iff its length is a perfect square.
SpatialIn(P) == IF Len(P) = 3 THEN P ELSE <<1, Root(P[1]), Root(P[1])>>
AcceptsInput(kind, P, first) ==
  IF kind = "dense" THEN (~first \/ Len(P) = 1)
  ELSE (IF first THEN Len(P) = 3 ELSE (Len(P) = 3 \/ IsSquare(P[1])))

\* the Layers-style configuration of a spatial layer with hyper-parameters hp on input shape s
SpatialCfg(kind, hp, s) ==
  [kind |-> kind, c |-> s[1], h |-> s[2], w |-> s[3], f |-> IF kind = "pool" THEN 1 ELSE hp.f,
   kh |-> hp.kh, kw |-> hp.kw, sh |-> hp.sh, sw |-> hp.sw,
   ph |-> IF kind = "pool" THEN 0 ELSE hp.ph, pw |-> IF kind = "pool" THEN 0 ELSE hp.pw,
   dh |-> IF kind = "conv" THEN hp.dh ELSE 1, dw |-> IF kind = "conv" THEN hp.dw ELSE 1,
   act |-> IF kind = "pool" THEN "linear" ELSE hp.act, bias |-> FALSE]
DenseCfg(hp, n) ==
  [kind |-> "dense", c |-> n, h |-> 1, w |-> 1, f |-> hp.f, kh |-> 1, kw |-> 1, sh |-> 1, sw |-> 1,
   ph |-> 0, pw |-> 0, dh |-> 1, dw |-> 1, act |-> hp.act, bias |-> hp.bias]

\* layer record (without parameters) for adding `kind` with hyper-parameters hp after output shape P
NewLayer(kind, hp, P) ==
  IF kind = "dense"
    THEN LET n == Count(P) IN
         [kind |-> "dense", cfg |-> DenseCfg(hp, n), in |-> <<n>>, out |-> <<hp.f>>, flatten |-> FALSE]
    ELSE LET s == SpatialIn(P) c == SpatialCfg(kind, hp, s) IN
         [kind |-> kind, cfg |-> c, in |-> s, out |-> OutShape(c), flatten |-> FALSE]

\* a feedback block announced after output shape P: its inner layers are chained from P (no parameters yet);
\* the block is accepted iff every inner layer is and the chain returns to the block's input shape
RECURSIVE ChainFrom(_, _, _)
ChainFrom(items, P, k) ==
  IF k > Len(items) THEN <<>>
  ELSE LET L == NewLayer(items[k].kind, items[k].hp, P) IN <<L>> \o ChainFrom(items, L.out, k + 1)
BlockAccepted(items, P) ==
  LET inner == ChainFrom(items, P, 1) IN
  /\ \A k \in 1..Len(items) :
        /\ AcceptsInput(items[k].kind, IF k = 1 THEN P ELSE inner[k - 1].out, FALSE)
        /\ (items[k].kind = "dense") = (Len(IF k = 1 THEN P ELSE inner[k - 1].out) = 1)     \* blocks do not flatten / square inside
        /\ Fits(inner[k].cfg)
  /\ inner[1].in = inner[Len(inner)].out
NewBlock(items, P, loops, inskips, outskips, acc) ==
  LET inner == ChainFrom(items, P, 1) IN
  [kind |-> "fb", inner |-> inner, loops |-> loops, inskips |-> inskips, outskips |-> outskips, acc |-> acc,
   in |-> inner[1].in, out |-> inner[Len(inner)].out, flatten |-> FALSE,
   cfg |-> [kind |-> "fb", act |-> "linear", bias |-> FALSE]]

\* adding a dense layer after a spatial one makes the previous layer flatten its output
MarkFlatten(layers, kind) ==
  IF kind = "dense" /\ layers # <<>> /\ Len(layers[Len(layers)].out) = 3
    THEN [layers EXCEPT ![Len(layers)].flatten = TRUE]
    ELSE layers
\* ======================= constructors used by the bounded instances =======================
HP(f, kh, kw, sh, sw, ph, pw, dh, dw, act, bias) ==
  [f |-> f, kh |-> kh, kw |-> kw, sh |-> sh, sw |-> sw, ph |-> ph, pw |-> pw, dh |-> dh, dw |-> dw, act |-> act, bias |-> bias]

LayerParams(L, seed) ==
  CASE L.kind \in {"conv", "deconv"} ->
         [K |-> TLCEval([f \in 1..L.cfg.f |-> TLCEval([ch \in 1..L.cfg.c |-> TLCEval([a \in 1..L.cfg.kh |-> TLCEval([b \in 1..L.cfg.kw |->
                   Val(seed, ((f*3 + ch)*5 + a)*7 + b)])])])])]
    [] L.kind = "pool"  -> [K |-> <<>>]
    [] L.kind = "dense" -> [W |-> TLCEval([i \in 1..L.cfg.f |-> TLCEval([j \in 1..L.cfg.c |-> Val(seed, i*11 + j)])]),
                            b |-> TLCEval([i \in 1..L.cfg.f |-> IF L.cfg.bias THEN Val(seed + 5, i) ELSE 0])]

\* the same with parameters in {-1, 0, 1} (keeps products of several accumulations far below 2^24)
Small(seed, i) == ((Val(seed, i) + 3) % 3) - 1
LayerParamsS(L, seed) ==
  CASE L.kind \in {"conv", "deconv"} ->
         [K |-> TLCEval([f \in 1..L.cfg.f |-> TLCEval([ch \in 1..L.cfg.c |-> TLCEval([a \in 1..L.cfg.kh |-> TLCEval([b \in 1..L.cfg.kw |->
                   Small(seed, ((f*3 + ch)*5 + a)*7 + b)])])])])]
    [] L.kind = "pool"  -> [K |-> <<>>]
    [] L.kind = "dense" -> [W |-> TLCEval([i \in 1..L.cfg.f |-> TLCEval([j \in 1..L.cfg.c |-> Small(seed, i*11 + j)])]),
                            b |-> TLCEval([i \in 1..L.cfg.f |-> IF L.cfg.bias THEN Small(seed + 5, i) ELSE 0])]
MkLayerS(kind, hp, P, seed) == LET L0 == NewLayer(kind, hp, P) IN L0 @@ [params |-> LayerParamsS(L0, seed)]

\* Sparse, non-degenerate parameters: identity-like (centre tap / diagonal = 1) plus a few +-1 entries, so that repeated
\* application neither dies (ReLU, zero kernels) nor explodes beyond exact range
Sparse(seed, i) == IF Val(seed, i) = 3 THEN 1 ELSE IF Val(seed, i) = -3 THEN -1 ELSE 0
LayerParamsN(L, seed) ==
  CASE L.kind \in {"conv", "deconv"} ->
         [K |-> TLCEval([f \in 1..L.cfg.f |-> TLCEval([ch \in 1..L.cfg.c |-> TLCEval([a \in 1..L.cfg.kh |-> TLCEval([b \in 1..L.cfg.kw |->
                   (IF a = (L.cfg.kh + 1) \div 2 /\ b = (L.cfg.kw + 1) \div 2 /\ ((f + ch) % 2 = 0 \/ L.cfg.f = 1 \/ L.cfg.c = 1) THEN 1 ELSE 0)
                   + Sparse(seed, ((f*3 + ch)*5 + a)*7 + b)])])])])]
    [] L.kind = "pool"  -> [K |-> <<>>]
    [] L.kind = "dense" -> [W |-> TLCEval([i \in 1..L.cfg.f |-> TLCEval([j \in 1..L.cfg.c |->
                                      (IF i = j \/ (i > L.cfg.c /\ j = ((i - 1) % L.cfg.c) + 1) THEN 1 ELSE 0) + Sparse(seed, i*11 + j)])]),
                            b |-> TLCEval([i \in 1..L.cfg.f |-> IF L.cfg.bias THEN Small(seed + 5, i) ELSE 0])]
MkLayerN(kind, hp, P, seed) == LET L0 == NewLayer(kind, hp, P) IN L0 @@ [params |-> LayerParamsN(L0, seed)]
\* a complete layer record (announced shapes + seeded parameters) added after output shape P
MkLayer(kind, hp, P, seed) == LET L0 == NewLayer(kind, hp, P) IN L0 @@ [params |-> LayerParams(L0, seed)]
=============================================================================
