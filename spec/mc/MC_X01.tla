---------------------------- MODULE MC_X01 ----------------------------
(* Bounded instance for the tensor utilities (not one of the listed properties; see DESIGN.md section 11). *)
EXTENDS TensorUtil, TLC, Json

CONSTANTS MaxDim, Seeds
VARIABLES pick, rec
vars == <<pick, rec>>

T(c, h, w, seed) == [ch \in 1..c |-> [i \in 1..h |-> [j \in 1..w |-> Val(seed, (ch * 7 + i) * 11 + j)]]]

Init ==
  /\ rec = <<>>
  /\ \/ \E n \in 1..5, v \in 0..5 : pick = [kind |-> "one_hot", v |-> v, n |-> n]
     \/ \E n \in 1..6, seed \in Seeds : pick = [kind |-> "argmax", v |-> [i \in 1..n |-> Val(seed, i) \div 2]]
     \/ \E c \in 1..2, h \in 1..MaxDim, w \in 1..MaxDim, H \in 1..(MaxDim + 2), W \in 1..(MaxDim + 2), seed \in Seeds :
           pick = [kind |-> "pad3d", c |-> c, h |-> h, w |-> w, H |-> H, W |-> W, seed |-> seed]
     \/ \E h \in 1..MaxDim, w \in 1..MaxDim, sh \in 1..2, sw \in 1..3, H \in 1..(2 * MaxDim), W \in 1..(2 * MaxDim) :
           pick = [kind |-> "upsample3d", c |-> 1, h |-> h, w |-> w, H |-> H, W |-> W, sh |-> sh, sw |-> sw, seed |-> 1]
     \/ \E c \in 1..2, h \in 1..4, w \in 1..4, nc \in 1..2, nh \in 1..4, nw \in 1..4 :
           nc <= c /\ nh <= h /\ nw <= w /\ pick = [kind |-> "resize", c |-> c, h |-> h, w |-> w, nc |-> nc, nh |-> nh, nw |-> nw, seed |-> 2]
     \/ \E c \in 1..2, h \in 1..MaxDim, w \in 1..MaxDim, seed \in Seeds, from \in {"vector", "tensor"} :
           pick = [kind |-> "get_triple", c |-> c, h |-> h, w |-> w, seed |-> seed, from |-> from]
     \/ \E f \in 1..3, c \in 1..2, h \in 1..2, w \in 1..MaxDim, seed \in Seeds :
           pick = [kind |-> "split_quad", f |-> f, c |-> c, h |-> h, w |-> w, seed |-> seed]
     \/ \E c \in 1..2, h \in 1..MaxDim, w \in 1..MaxDim, k \in 0..2, seed \in Seeds :
           pick = [kind |-> "hadamard3d", c |-> c, h |-> h, w |-> w, k |-> k, seed |-> seed]
     \/ \E n \in {1, 2, 7, 16, 33}, rate \in {<<1, 1>>, <<1, 2>>, <<3, 2>>, <<1, 3>>, <<7, 3>>} :
           pick = [kind |-> "dropout", n |-> n, a |-> rate[1], k |-> rate[2]]

Compute ==
  /\ rec = <<>> /\ UNCHANGED pick
  /\ rec' = CASE pick.kind = "one_hot" ->
                   IF pick.v < pick.n THEN pick @@ [outcome |-> "ok", result |-> OneHot(pick.v, pick.n)]
                   ELSE pick @@ [outcome |-> "panic", result |-> <<>>]
              [] pick.kind = "argmax" -> pick @@ [result |-> ArgMax(pick.v) - 1]
              [] pick.kind = "pad3d" ->
                   pick @@ [x |-> T(pick.c, pick.h, pick.w, pick.seed), result |-> Pad3d(T(pick.c, pick.h, pick.w, pick.seed), pick.H, pick.W)]
              [] pick.kind = "upsample3d" ->
                   pick @@ [x |-> T(1, pick.h, pick.w, 1), result |-> Upsample3d(T(1, pick.h, pick.w, 1), pick.H, pick.W, pick.sh, pick.sw)]
              [] pick.kind = "resize" ->
                   pick @@ [x |-> T(pick.c, pick.h, pick.w, 2), result |-> Resize(T(pick.c, pick.h, pick.w, 2), pick.nc, pick.nh, pick.nw)]
              [] pick.kind = "get_triple" ->
                   LET v == [i \in 1..(pick.c * pick.h * pick.w) |-> Val(pick.seed, i)]
                       sh == <<pick.c, pick.h, pick.w>>
                       t == IF pick.from = "vector" THEN [shape |-> <<Len(v)>>, data |-> v] ELSE [shape |-> sh, data |-> Unflat3(v, pick.c, pick.h, pick.w)] IN
                   pick @@ [x |-> t.data, result |-> GetTriple(t, sh)]
              [] pick.kind = "split_quad" ->
                   LET q == [f \in 1..pick.f |-> T(pick.c, pick.h, pick.w, pick.seed + f)] IN pick @@ [x |-> q, result |-> SplitQuad(q)]
              [] pick.kind = "hadamard3d" ->
                   LET a == T(pick.c, pick.h, pick.w, pick.seed) b == T(pick.c, pick.h, pick.w, pick.seed + 5) IN
                   pick @@ [x |-> a, y |-> b, result |-> Hadamard3d(a, b, pick.k)]
              [] pick.kind = "dropout" -> pick @@ [mask |-> DropoutMask(pick.n, pick.a, pick.k)]
Next == Compute
Spec == Init /\ [][Next]_vars

\* padding never loses an element that fits, upsampling keeps every source element that lands inside
PadKeepsSum ==
  (rec # <<>> /\ rec.kind = "pad3d" /\ rec.H >= rec.h /\ rec.W >= rec.w) =>
     SumSeq(Flat3(rec.result)) = SumSeq(Flat3(rec.x))
\* regrouping is the row-major identity
RegroupIsRowMajor ==
  (rec # <<>> /\ rec.kind = "get_triple") => Flat3(rec.result) = [i \in 1..(rec.c * rec.h * rec.w) |-> Val(rec.seed, i)]
Emit == rec = <<>> \/ PrintT("REPLAY " \o ToJson([group |-> "tutil"] @@ rec))
=============================================================================
