---------------------------- MODULE MC_C10 ----------------------------
(***************************************************************************)
(* (a) FeedbackSM: the tying invariant over all update histories;          *)
(* (b) the configuration table replayed into real training: block layer    *)
(*     list x loops x coupling accumulation x optimizer x batch size x     *)
(*     steps, with the parameter count of ONE copy.                        *)
(***************************************************************************)
EXTENDS FeedbackSM, Json

CONSTANTS Blocks, Optimizers, Batches

MCGrads == {-1, 0, 2}

\* block layer lists: <<kind, size/filters, bias>>; dense layers produce n values (the first consumes what the last produces), conv/deconv 3x3 (or the given kernel) stride 1, shape-preserving padding, on 1 x 4 x 4
BlockMenu == <<
  << <<"dense", 3, TRUE>> >>,
  << <<"dense", 4, FALSE>> >>,
  << <<"conv", 1, FALSE>> >>,
  << <<"deconv", 1, FALSE>> >>,
  << <<"dense", 3, TRUE>>, <<"dense", 3, FALSE>> >>,
  << <<"conv", 1, FALSE>>, <<"deconv", 1, FALSE>> >>,
  << <<"conv", 2, FALSE>>, <<"conv", 1, FALSE>> >>,
  \* non-square kernels (fourth component <<kh, kw>>, padding (kh-1)/2, (kw-1)/2 keeps the 4 x 4 shape)
  << <<"conv", 1, FALSE, <<1, 3>>>> >>,
  << <<"deconv", 1, FALSE, <<3, 5>>>>, <<"conv", 2, FALSE, <<5, 3>>>>, <<"conv", 1, FALSE>> >>,
  \* dense layers of different widths with mixed bias (3 -> 5 with bias, 5 -> 3 without; 4 -> 2 without, 2 -> 4 with)
  << <<"dense", 5, TRUE>>, <<"dense", 3, FALSE>> >>,
  << <<"dense", 2, FALSE>>, <<"dense", 4, TRUE>> >>,
  \* a deconvolution whose filter count differs from its input channel count (1 -> 2 channels, then 2 -> 1)
  << <<"conv", 2, FALSE>>, <<"deconv", 1, FALSE>> >>
>>
\* parameters of one layer: dense out * in (+ out), where `in` is the width the previous layer produces (the block is a
\* cycle: the first layer consumes what the last one produces); conv/deconv filters * channels * kh * kw
RECURSIVE CountFrom(_, _, _)
CountFrom(b, k, ch) ==
  IF k > Len(b) THEN 0
  ELSE LET l == b[k] IN
       (IF l[1] = "dense" THEN l[2] * ch + (IF l[3] THEN l[2] ELSE 0)
        ELSE l[2] * ch * (IF Len(l) = 4 THEN l[4][1] * l[4][2] ELSE 9))
       + CountFrom(b, k + 1, l[2])
ParamCount(b) == CountFrom(b, 1, IF b[1][1] = "dense" THEN b[Len(b)][2] ELSE 1)

\* configuration cases are emitted from the initial states of the tying model (one per loops x accumulation)
Emit ==
  steps = 0 =>
    \A b \in Blocks, o \in Optimizers, bs \in Batches :
      PrintT("REPLAY " \o ToJson([group |-> "tying", block |-> BlockMenu[b], loops |-> loops, acc |-> acc, optimizer |-> o,
                                  batch |-> bs, steps |-> MaxSteps, count |-> ParamCount(BlockMenu[b])]))
=============================================================================
