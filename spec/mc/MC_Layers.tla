---------------------------- MODULE MC_Layers ----------------------------
(***************************************************************************)
(* Bounded instance for single layers (C01, C02, C08-layer part).          *)
(* TLC enumerates the (sampled or full) configuration lattice of each      *)
(* layer kind with integer parameters / inputs / upstream gradients and    *)
(* checks, per configuration:                                              *)
(*   ShapeOK           produced dimensions = the size formulas             *)
(*   GradIsDerivative  the backward mechanism equals the exact finite      *)
(*                     difference of <g, forward> in every parameter and   *)
(*                     input coordinate where that function is affine      *)
(* and prints one REPLAY case per configuration.                           *)
(***************************************************************************)
EXTENDS Layers, TLC, Json

CONSTANTS Kinds,      \* subset of {"conv", "deconv", "pool", "dense"}
          MaxHW,      \* input heights/widths range over 3..MaxHW (2..MaxHW-1 for deconv)
          Stride,     \* lattice sub-sampling: keep configurations with Hash % Stride = Pick
          Pick,
          DataSeeds,  \* seeds of the integer data
          CheckFD     \* evaluate the finite-difference invariant

VARIABLES pick,   \* the chosen <<configuration, data seed>>
          case    \* <<>> until the case has been computed from `pick`
vars == <<pick, case>>

\* injective for i < 211; signed, so that some windows hold only negative values
Distinct(seed, i) == ((i * (7 + 6 * (seed % 3))) % 211) - 105

\* values that REPEAT across windows but never inside one: periodic with the kernel's period in both directions, so every
\* kh x kw block of consecutive cells (every window, whatever the stride) holds each residue class exactly once
Repeating(c, seed, ch, i, j) == Distinct(seed, ((i - 1) % c.kh) * c.kw + ((j - 1) % c.kw) + 1 + ch)
RepeatStyle(c, seed) == (c.h + c.w + c.kh + seed) % 2 = 0

Hash(c) == c.h*3 + c.w*5 + c.kh*7 + c.kw*11 + c.sh*13 + c.sw*17 + c.ph*19 + c.pw*23 + c.dh*29 + c.dw*31
           + c.c*37 + c.f*41 + (IF c.act = "relu" THEN 43 ELSE 0)
Keep(c) == Hash(c) % Stride = Pick % Stride

ConvLattice ==
  {c \in [kind : {"conv"}, c : 1..2, h : 3..MaxHW, w : 3..MaxHW, f : 1..2, kh : 1..3, kw : 1..3,
          sh : 1..2, sw : 1..2, ph : 0..2, pw : 0..2, dh : 1..2, dw : 1..2, act : {"linear", "relu"}, bias : {FALSE}] :
     ConvFits(c) /\ Keep(c)}
DeconvLattice ==
  {c \in [kind : {"deconv"}, c : 1..2, h : 2..(MaxHW-1), w : 2..(MaxHW-1), f : 1..2, kh : 1..3, kw : 1..3,
          sh : 1..2, sw : 1..2, ph : 0..2, pw : 0..2, dh : {1}, dw : {1}, act : {"linear", "relu"}, bias : {FALSE}] :
     DeconvFits(c) /\ Keep(c)}
PoolLattice ==
  {c \in [kind : {"pool"}, c : 1..2, h : 3..MaxHW, w : 3..MaxHW, f : {1}, kh : 1..3, kw : 1..3,
          sh : 1..3, sw : 1..3, ph : {0}, pw : {0}, dh : {1}, dw : {1}, act : {"linear"}, bias : {FALSE}] :
     PoolFits(c) /\ (Hash(c) % Max2(1, Stride \div 8) = Pick % Max2(1, Stride \div 8))}
DenseLattice ==
  {c \in [kind : {"dense"}, c : 1..4, h : {1}, w : {1}, f : 1..4, kh : {1}, kw : {1},
          sh : {1}, sw : {1}, ph : {0}, pw : {0}, dh : {1}, dw : {1}, act : {"linear", "relu"}, bias : BOOLEAN] : TRUE}

\* Large maps and wide layers (extents that straddle 32 and 64: block sizes of tiled or chunked code paths must not show).
\* Only where the per-coordinate finite-difference theorem is not evaluated (it is quadratic in the size).
Big(kind, c, h, w, f, kh, kw, sh, sw, ph, pw, act, bias) ==
  [kind |-> kind, c |-> c, h |-> h, w |-> w, f |-> f, kh |-> kh, kw |-> kw, sh |-> sh, sw |-> sw, ph |-> ph, pw |-> pw,
   dh |-> 1, dw |-> 1, act |-> act, bias |-> bias]
BigConfigs ==
  IF CheckFD THEN {}
  ELSE {c \in {Big("conv", 1, 33, 34, 2, 3, 3, 1, 1, 1, 1, "relu", FALSE),
               Big("conv", 2, 40, 36, 1, 2, 3, 2, 1, 0, 1, "linear", FALSE),
               Big("deconv", 1, 20, 33, 1, 2, 2, 2, 2, 0, 0, "linear", FALSE),
               Big("deconv", 1, 33, 17, 2, 3, 3, 1, 2, 1, 2, "relu", FALSE),
               Big("pool", 1, 34, 66, 1, 2, 2, 2, 2, 0, 0, "linear", FALSE),
               Big("pool", 2, 35, 33, 1, 3, 2, 2, 1, 0, 0, "linear", FALSE),
               Big("dense", 70, 1, 1, 33, 1, 1, 1, 1, 0, 0, "relu", TRUE),
               Big("dense", 33, 1, 1, 70, 1, 1, 1, 1, 0, 0, "linear", FALSE),
               Big("dense", 600, 1, 1, 2, 1, 1, 1, 1, 0, 0, "linear", TRUE)} : c.kind \in Kinds}

\* Strides of three and four (the lattice stops at two): the windows then leave a remainder of two or three rows / columns
\* of the padded input unread, and the two axes differ
WideStrideConfigs ==
  {c \in {Big("conv", 1, 8, 8, 1, 3, 3, 3, 3, 0, 0, "linear", FALSE),
           Big("conv", 1, 7, 9, 2, 2, 2, 3, 4, 0, 1, "relu", FALSE),
           Big("conv", 2, 6, 8, 1, 2, 3, 4, 3, 1, 0, "linear", FALSE),
           Big("deconv", 1, 3, 3, 1, 2, 2, 3, 2, 0, 0, "linear", FALSE),
           Big("deconv", 2, 2, 3, 1, 3, 2, 2, 3, 1, 0, "relu", FALSE),
           Big("pool", 1, 8, 9, 1, 2, 2, 3, 4, 0, 0, "linear", FALSE)} : c.kind \in Kinds}

Lattice == WideStrideConfigs \cup BigConfigs \cup (IF "conv" \in Kinds THEN ConvLattice ELSE {}) \cup (IF "deconv" \in Kinds THEN DeconvLattice ELSE {})
           \cup (IF "pool" \in Kinds THEN PoolLattice ELSE {}) \cup (IF "dense" \in Kinds THEN DenseLattice ELSE {})

\* ---- data ---------------------------------------------------------------------
Kernels(c, seed) ==
  [f \in 1..c.f |-> [ch \in 1..c.c |-> [a \in 1..c.kh |-> [b \in 1..c.kw |->
     Val(seed, ((f*3 + ch)*5 + a)*7 + b)]]]]
Params(c, seed) ==
  CASE c.kind \in {"conv", "deconv"} -> [K |-> Kernels(c, seed)]
    [] c.kind = "pool"  -> [K |-> <<>>]
    [] c.kind = "dense" -> [W |-> [i \in 1..c.f |-> [j \in 1..c.c |-> Val(seed, i*11 + j)]],
                            b |-> [i \in 1..c.f |-> IF c.bias THEN Val(seed + 5, i) ELSE 0]]
Input(c, seed) ==
  IF c.kind = "dense" THEN [j \in 1..c.c |-> Val(seed + 1, j)]
  ELSE [ch \in 1..c.c |-> [i \in 1..c.h |-> [j \in 1..c.w |->
          IF c.kind = "pool" THEN (IF RepeatStyle(c, seed) THEN Repeating(c, seed, ch, i, j)
                                   ELSE Distinct(seed, ((ch - 1)*c.h + (i - 1))*c.w + j))
                             ELSE Val(seed + 1, (ch*13 + i)*17 + j)]]]
\* upstream gradient; zero where a ReLU pre-activation sits exactly on the kink (C01 quantifies away from kinks)
Upstream(c, seed, pre) ==
  LET raw(n) == Val(seed + 2, n) + (IF Val(seed + 2, n) = 0 THEN 1 ELSE 0)
      o == OutShape(c)
  IN IF c.kind = "dense"
       THEN [i \in 1..o[1] |-> IF c.act = "relu" /\ pre[i] = 0 THEN 0 ELSE raw(i)]
       ELSE [f \in 1..o[1] |-> [i \in 1..o[2] |-> [j \in 1..o[3] |->
               IF c.act = "relu" /\ pre[f][i][j] = 0 THEN 0 ELSE raw((f*19 + i)*23 + j)]]]

MkCase(c, seed) ==
  LET params == Params(c, seed)
      x   == Input(c, seed)
      pre == Pre(c, params, x)
      g   == Upstream(c, seed, pre)
  IN [cfg |-> c, seed |-> seed, params |-> params, x |-> x, pre |-> pre, post |-> Post(c, pre), g |-> g,
      dx |-> BwdX(c, params, x, pre, g), dw |-> BwdW(c, params, x, pre, g), db |-> BwdB(c, pre, g),
      out |-> OutShape(c)]

\* Two steps, so that TLC's workers compute (and check) the cases in parallel: choosing is cheap, computing is not.
Init == pick \in Lattice \X DataSeeds /\ case = <<>>
Compute == case = <<>> /\ case' = MkCase(pick[1], pick[2]) /\ UNCHANGED pick
Next == Compute
Spec == Init /\ [][Next]_vars

\* ---- invariants ------------------------------------------------------------------
DimsOf(rank, t) == IF rank = 1 THEN <<Len(t)>> ELSE Dims3(t)
ShapeOK ==
  case = <<>> \/
  LET c == case.cfg IN
  /\ DimsOf(RankOf(c), case.pre) = case.out
  /\ DimsOf(RankOf(c), case.post) = case.out
  /\ \A i \in 1..Len(case.out) : case.out[i] >= 1
  /\ c.kind # "dense" => Dims3(case.dx) = <<c.c, c.h, c.w>>
  /\ c.kind \in {"conv", "deconv"} => /\ Len(case.dw) = c.f /\ Dims3(case.dw[1]) = <<c.c, c.kh, c.kw>>

\* objective <g, post(pre)>
Lof(c, pre, g) == Inner(RankOf(c), g, Post(c, pre))

\* The segment between two parameter/input points stays inside one linear piece of the network function,
\* as far as the objective can see (positions with g = 0 do not matter):
\*  - ReLU: every pre-activation stays in the closed half-line of its (non-zero) base value;
\*  - max-pool: the base arg-max of every window is still a maximum at the other end.
\* Pre-activations are affine in one coordinate, so this makes <g, forward> affine on the segment and the
\* unit difference IS the derivative.
StableAct(c, pre0, pre1, g) ==
  c.act # "relu" \/
  LET a == FlatR(RankOf(c), pre0) b == FlatR(RankOf(c), pre1) w == FlatR(RankOf(c), g) IN
  \A i \in 1..Len(a) : w[i] # 0 => ((a[i] > 0 /\ b[i] >= 0) \/ (a[i] < 0 /\ b[i] <= 0))
StablePool(c, x0, x1, g) ==
  \A ch \in 1..c.c, oh \in 1..PoolOH(c), ow \in 1..PoolOW(c) :
     g[ch][oh][ow] # 0 =>
       \E q \in Window(c, oh, ow) : /\ x0[ch][q[1]][q[2]] = PoolPre(x0, c)[ch][oh][ow]
                                     /\ x1[ch][q[1]][q[2]] = PoolPre(x1, c)[ch][oh][ow]
Stable(c, P1, x1) ==
  IF case.cfg.kind = "pool" THEN StablePool(c, case.x, x1, case.g)
  ELSE StableAct(c, case.pre, Pre(c, P1, x1), case.g)

\* d is the derivative in the coordinate whose unit perturbations are (Pp, xp) and (Pm, xm)
CoordOK(c, Pp, xp, Pm, xm, d) ==
  (Stable(c, Pp, xp) /\ Stable(c, Pm, xm)) =>
     LET l0 == Lof(c, case.pre, case.g) IN
     /\ Lof(c, Pre(c, Pp, xp), case.g) - l0 = d
     /\ l0 - Lof(c, Pre(c, Pm, xm), case.g) = d

GradIsDerivative ==
  ~CheckFD \/ case = <<>> \/
  LET c == case.cfg  P == case.params  x == case.x IN
  /\ c.kind \in {"conv", "deconv"} =>
       \A f \in 1..c.f, ch \in 1..c.c, a \in 1..c.kh, b \in 1..c.kw :
          CoordOK(c, [K |-> [P.K EXCEPT ![f][ch][a][b] = @ + 1]], x,
                     [K |-> [P.K EXCEPT ![f][ch][a][b] = @ - 1]], x, case.dw[f][ch][a][b])
  /\ c.kind = "dense" =>
       /\ \A i \in 1..c.f, j \in 1..c.c :
            CoordOK(c, [P EXCEPT !.W[i][j] = @ + 1], x, [P EXCEPT !.W[i][j] = @ - 1], x, case.dw[i][j])
       /\ \A i \in 1..c.f :
            CoordOK(c, [P EXCEPT !.b[i] = @ + 1], x, [P EXCEPT !.b[i] = @ - 1], x, case.db[i])
       /\ \A j \in 1..c.c :
            CoordOK(c, P, [x EXCEPT ![j] = @ + 1], P, [x EXCEPT ![j] = @ - 1], case.dx[j])
  /\ c.kind # "dense" =>
       \A ch \in 1..c.c, i \in 1..c.h, j \in 1..c.w :
          CoordOK(c, P, [x EXCEPT ![ch][i][j] = @ + 1], P, [x EXCEPT ![ch][i][j] = @ - 1], case.dx[ch][i][j])

\* pool inputs are tie-free (quantifier of C01/C02)
TieFree == case = <<>> \/ case.cfg.kind # "pool" \/ PoolTieFree(case.x, case.cfg)

Emit == case = <<>> \/ PrintT("REPLAY " \o ToJson([group |-> "layer"] @@ case))
=============================================================================
