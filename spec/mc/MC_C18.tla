---------------------------- MODULE MC_C18 ----------------------------
(***************************************************************************)
(* Bounded instance for the generator: states in stratified bands (the low *)
(* end, the high end incl. all 63 states whose successor has ratio 1, a    *)
(* coarse grid over the whole range), all vector lengths; shuffles of      *)
(* short vectors; 64-bit seeds given as base-2^31 limbs.                   *)
(***************************************************************************)
EXTENDS Random, Json

CONSTANTS Band,        \* width of the low/high bands
          GridStep,    \* spacing of the coarse grid
          MaxLen,      \* vector lengths 1..MaxLen for the index records
          ShuffleLen   \* vector lengths for complete shuffles

VARIABLES pick, rec
vars == <<pick, rec>>

\* predecessors of the 63 "ratio = 1" successors are scattered; include the successors' band by enumerating the
\* states x whose successor falls into the top band (found by TLC itself through the grid + bands), plus witnesses
\* all 63 states whose successor n >= 2^31 - 64 has ratio exactly 1, and their neighbours below the threshold
Witness == {PrevState(n) : n \in (M - 80)..(M - 1)}
States == (1..Band) \cup ((M - Band)..(M - 1)) \cup {k * GridStep + 12345 : k \in 0..((M - 12346) \div GridStep)} \cup Witness

\* states from which the k-th draw (k = 2..8), not the first, is one of the ratio-one successors: a shuffle meets the
\* extreme draw at a LATER position, where fewer elements remain
RECURSIVE PrevK(_, _)
PrevK(n, k) == IF k = 0 THEN n ELSE PrevK(PrevState(n), k - 1)
LaterWitness == {PrevK(n, k) : n \in {M - 1, M - 2, M - 33, M - 64}, k \in 2..8}

Seeds == { <<0, 0, 0>>, <<0, 0, 1>>, <<0, 1, 0>>, <<0, 1, 5>>, <<1, 0, 0>>, <<3, 2147483647, 2147483647>>,
           <<0, 0, 2147483647>>, <<2, 123456789, 987654321>>, <<0, 20, 7>>, <<3, 0, 12345>> }

\* shapes for randomly initialised tensors: every rank 1..4 with every dimension in 0..2 (empty dimensions
\* included: "all tensor shapes"), and a few larger ones
TensorShapes ==
  UNION {[1..r -> 0..2] : r \in 1..4} \cup {<<7>>, <<3, 5>>, <<5, 3>>, <<2, 3, 4>>, <<4, 1, 3>>, <<2, 1, 3, 2>>, <<1, 2, 1, 5>>}
\* vectors longer than 2^24: len - 1 rounds to len in single precision for some of them; started in the states whose FIRST
\* draw has ratio one (the first swap draws an index for the whole vector) and in two ordinary states
BigLens == {16777217, 16777220}
BigShuffleStates == {PrevState(M - 1), PrevState(M - 2), PrevState(M - 40), 12345}
RECURSIVE ProdSeq(_)
ProdSeq(q) == IF q = <<>> THEN 1 ELSE Head(q) * ProdSeq(Tail(q))

Init ==
  /\ rec = <<>>
  /\ \/ \E x \in States, len \in 1..MaxLen : pick = [kind |-> "index", x |-> x, len |-> len]
     \/ \E x \in States \cup LaterWitness, len \in ShuffleLen : pick = [kind |-> "shuffle", x |-> x, len |-> len]
     \/ \E s \in Seeds : pick = [kind |-> "seed", limbs |-> s]
     \/ \E sh \in TensorShapes : pick = [kind |-> "tensor", shape |-> sh]
     \/ \E x \in BigShuffleStates, len \in BigLens : pick = [kind |-> "bigshuffle", x |-> x, len |-> len]

Compute ==
  /\ rec = <<>> /\ UNCHANGED pick
  /\ rec' = CASE pick.kind = "index" ->
                   LET n == NextState(pick.x) IN
                   [kind |-> "index", x |-> pick.x, next |-> n, len |-> pick.len, one |-> RatioIsOne(n),
                    m |-> RNE24(n).m, e |-> RNE24(n).e,
                    raw |-> IndexRaw(n, pick.len), index |-> Index(n, pick.len)]
              [] pick.kind = "shuffle" ->
                   LET r == Shuffle([i \in 1..pick.len |-> i], pick.x) IN
                   [kind |-> "shuffle", x |-> pick.x, len |-> pick.len, result |-> r.v, state |-> r.state]
              [] pick.kind = "seed" ->
                   LET x0 == SeedState(pick.limbs[1], pick.limbs[2], pick.limbs[3]) IN
                   [kind |-> "seed", limbs |-> pick.limbs, x |-> x0,
                    m1 |-> RNE24(NextState(x0)).m, e1 |-> RNE24(NextState(x0)).e,
                    m2 |-> RNE24(NextState(NextState(x0))).m, e2 |-> RNE24(NextState(NextState(x0))).e]
              [] pick.kind = "bigshuffle" ->
                   [kind |-> "bigshuffle", x |-> pick.x, len |-> pick.len, one |-> RatioIsOne(NextState(pick.x))]
              [] pick.kind = "tensor" ->
                   \* the contract: dimension i of the data is shape[i] at every nesting position that exists, and the
                   \* tensor holds prod(shape) entries, each inside the requested interval
                   [kind |-> "tensor", shape |-> pick.shape, rank |-> Len(pick.shape), count |-> ProdSeq(pick.shape)]
Next == Compute
Spec == Init /\ [][Next]_vars

\* ---- properties of the model ------------------------------------------------------
StateInRange == (rec # <<>> /\ rec.kind = "index") => (rec.next \in 1..(M - 1))
IndexInBounds == (rec # <<>> /\ rec.kind = "index") => (rec.index \in 0..(rec.len - 1))
\* the raw single-precision computation leaves the range exactly when the ratio is one
RawOverflowIffOne == (rec # <<>> /\ rec.kind = "index") => ((rec.raw >= rec.len) <=> rec.one)
PrevIsInverse == \A n \in {1, 2, 48271, M - 1, M - 64} : NextState(PrevState(n)) = n
ShuffleIsPermutation ==
  (rec # <<>> /\ rec.kind = "shuffle") => IsPermutation(rec.result, [i \in 1..rec.len |-> i])

Emit == rec = <<>> \/ PrintT("REPLAY " \o ToJson([group |-> "random"] @@ rec))
=============================================================================
