---------------------------- MODULE MC_Training ----------------------------
(***************************************************************************)
(* Bounded instances of the training process model.                        *)
(*   Mode = "schedule"  (C04, C05): all (n, b, e, workers) up to the bounds,*)
(*                      all interleavings of the per-sample tasks           *)
(*   Mode = "earlystop" (C13): all validation-loss trajectories over        *)
(*                      1..NVals, tolerances, epoch budgets, with/without   *)
(*                      validation data                                     *)
(*   Mode = "flags"     (C09): all flag layouts up to MaxLayers positions,  *)
(*                      with/without validation, chunk interleavings        *)
(***************************************************************************)
EXTENDS Training, Json

CONSTANTS Mode, MaxN, MaxB, MaxE, MaxWorkers, MaxTol, NVals, MaxLayers

Seqs(S, n) == UNION {[1..k -> S] : k \in 1..n}

Base == [n |-> 1, b |-> 1, e |-> 1, hasval |-> FALSE, tol |-> 1, nval |-> 0, chunk |-> 2, workers |-> 1,
         flagged |-> <<TRUE>>, vals |-> {1}]

ScheduleConfigs ==
  {[Base EXCEPT !.n = n, !.b = b, !.e = e, !.workers = k] :
      n \in 1..MaxN, b \in 1..MaxB, e \in 0..MaxE, k \in 1..MaxWorkers}
  \cup
  {[Base EXCEPT !.n = n, !.b = 2, !.e = 2, !.workers = 2, !.hasval = TRUE, !.tol = 3, !.nval = 5, !.chunk = 2] : n \in {2, 3}}

\* `print` (how often learn prints a progress line; 0 = never) is carried along uninterpreted: no action reads it,
\* i.e. the contract does not depend on it
EarlyStopConfigs ==
  {[Base EXCEPT !.e = e, !.hasval = hv, !.tol = t, !.nval = 1, !.chunk = 1, !.vals = 1..NVals] @@ [print |-> pr] :
      e \in 0..MaxE, hv \in BOOLEAN, t \in 1..MaxTol, pr \in {0, 2, 3}}

\* A layer sequence over the five kinds; a final dense output layer is always appended.
\* Which positions own a training flag: every dense/conv/deconv layer; a feedback block ("fb": one inner layer,
\* two loops) owns one per unrolled layer; max-pool layers own none.
Kinds == {"dense", "softmax", "conv", "conv1", "deconv", "pool", "fb", "fbd", "fbs"}
RECURSIVE FlagsOf(_)
FlagsOf(ks) ==
  IF ks = <<>> THEN <<TRUE>>                         \* the final dense layer
  ELSE (CASE Head(ks) = "pool" -> <<FALSE>>
          [] Head(ks) \in {"fb", "fbd", "fbs"} -> <<TRUE, TRUE>>
          [] OTHER             -> <<TRUE>>) \o FlagsOf(Tail(ks))
FlagConfigs ==
  {[Base EXCEPT !.n = 2, !.b = b, !.e = e, !.workers = 2, !.hasval = hv, !.tol = 2, !.nval = 3, !.chunk = 2,
                !.flagged = FlagsOf(ks)] @@ [kinds |-> ks] :
      b \in 1..2, e \in 0..2, hv \in BOOLEAN, ks \in Seqs(Kinds, MaxLayers)}

MCConfigs == CASE Mode = "schedule"  -> ScheduleConfigs
               [] Mode = "earlystop" -> EarlyStopConfigs
               [] Mode = "flags"     -> FlagConfigs

\* user-level validate calls are explored only in the flags instance
MCNext == Next \/ (Mode = "flags" /\ UserValidate)
MCSpec == Init /\ [][MCNext]_vars

Emit ==
  pc = "done" =>
    PrintT("REPLAY " \o ToJson([group |-> "training", mode |-> Mode,
                                p |-> [n |-> P.n, b |-> P.b, e |-> P.e, hasval |-> P.hasval, tol |-> P.tol,
                                       nval |-> P.nval, chunk |-> P.chunk, flagged |-> P.flagged, workers |-> P.workers,
                                       kinds |-> IF Mode = "flags" THEN P.kinds ELSE <<>>,
                                       print |-> IF Mode = "earlystop" THEN P.print ELSE 0],
                                updates |-> w, train |-> trainLoss, val |-> valLoss, ran |-> Len(trainLoss)]))
=============================================================================
