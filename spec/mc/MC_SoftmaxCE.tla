---------------------------- MODULE MC_SoftmaxCE ----------------------------
(***************************************************************************)
(* C01, last clause: for a soft-max output layer under the cross-entropy   *)
(* objective the gradients are those of the cross-entropy of the soft-max  *)
(* outputs.  The oracle is derived mechanically: the loss                  *)
(*     L(z) = - sum_i t_i * ln( exp(z_i) / sum_j exp(z_j) )                *)
(* is built as a term over the logits and differentiated symbolically.     *)
(***************************************************************************)
EXTENDS Num, TLC, Json

CONSTANTS Lens, Seeds

VARIABLES pick, rec
vars == <<pick, rec>>

Z(i) == Leaf("z" \o ToString(i))
T(i) == Leaf("t" \o ToString(i))
SoftmaxTerm(n, i) == Div(Exp(Z(i)), SumTerms([j \in 1..n |-> Exp(Z(j))]))
LossTerm(n) == Neg(SumTerms([i \in 1..n |-> Mul(T(i), Ln(SoftmaxTerm(n, i)))]))

Val(seed, i) == ((seed * 7919 + i * 104729 + i * i * 31) % 7) - 3

Init ==
  /\ rec = <<>>
  /\ \E n \in Lens, seed \in Seeds, soft \in BOOLEAN, m \in 1..3 :
       pick = [n |-> n, seed |-> seed, soft |-> soft, m |-> m]

Compute ==
  /\ rec = <<>> /\ UNCHANGED pick
  /\ LET n == pick.n
         hot == (pick.seed % n) + 1
         \* targets sum to one: one-hot, or 1/2 + 1/2 on two classes
         t == [i \in 1..n |-> IF pick.soft /\ n > 1
                               THEN (IF i = hot \/ i = (hot % n) + 1 THEN <<1, 2>> ELSE <<0, 1>>)
                               ELSE (IF i = hot THEN <<1, 1>> ELSE <<0, 1>>)]
     IN rec' = [n |-> n, m |-> pick.m, seed |-> pick.seed,
                x |-> [j \in 1..pick.m |-> Val(pick.seed + 1, j)],
                W |-> [i \in 1..n |-> [j \in 1..pick.m |-> Val(pick.seed, i * 11 + j)]],
                b |-> [i \in 1..n |-> Val(pick.seed + 5, i)],
                t |-> t,
                loss |-> LossTerm(n),
                dz |-> [k \in 1..n |-> D(LossTerm(n), "z" \o ToString(k))]]
Next == Compute
Spec == Init /\ [][Next]_vars

WellFormed == rec = <<>> \/ (Len(rec.dz) = rec.n /\ \A k \in 1..rec.n : Leaves(rec.dz[k]) \subseteq Leaves(rec.loss))
Emit == rec = <<>> \/ PrintT("REPLAY " \o ToJson([group |-> "softmaxce"] @@ rec))
=============================================================================
