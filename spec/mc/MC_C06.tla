---------------------------- MODULE MC_C06 ----------------------------
(***************************************************************************)
(* Case table for the objectives: objective x clamp x shape x boundary     *)
(* grid.  Every case carries the loss term, the gradient terms (clamped),  *)
(* the symbolic derivative of the loss, and the rational data.             *)
(***************************************************************************)
EXTENDS Objective, Json

CONSTANTS Shapes,      \* indices into ShapeMenu
          Offsets      \* grid rotations used for multi-element cases

VARIABLES pick, rec
vars == <<pick, rec>>

ShapeMenu == << <<1>>, <<2>>, <<3>>, <<4>>, <<1, 1, 2>>, <<2, 1, 2>>, <<1, 2, 2>>, <<2, 3, 1>> >>
Count(s) == IF Len(s) = 1 THEN s[1] ELSE s[1] * s[2] * s[3]

\* boundary grid for probabilities: 0, eps, 1/4, 1/2, 3/4, 1 - eps, 1 and a SUBNORMAL probability 2^-140
\* (as <<n, d>> or <<n, d, e>> = n/d * 2^e): a finite in-domain target whose reciprocal overflows
ProbGrid == << <<0, 1>>, <<1, 1000000>>, <<1, 4>>, <<1, 2>>, <<3, 4>>, <<999999, 1000000>>, <<1, 1>>, <<1, 1, -140>> >>
\* grid for the regression objectives; 2^-26 next to 0 is a pair closer than the machine epsilon that is NOT equal
\* (the "no slope at a == p" special cases of AE / RMSE must not swallow it)
RealGrid == << <<-2, 1>>, <<-1, 4>>, <<0, 1>>, <<1, 67108864>>, <<1, 2>>, <<1, 1>>, <<3, 1>>, <<0, -1>> >>   \* <<0, -1>> is -0.0: equal to +0.0
GridOf(obj) == IF obj \in Probabilistic THEN ProbGrid ELSE RealGrid
GridLen == 8

\* none / symmetric / one-sided with an infinite bound (Const(+-1, 0) evaluates to +-infinity) / degenerate /
\* intervals that EXCLUDE zero (a zero component -- prediction equal to the target -- must be limited too)
Clamps == << <<>>, <<Const(-1, 2), Const(1, 2)>>, <<Const(-1, 0), Const(1, 4)>>, <<Const(-1, 4), Const(1, 0)>>, <<Zero, Zero>>,
             <<Const(1, 4), Const(2, 1)>>, <<Const(-3, 1), Const(-1, 2)>> >>

\* data of element i for grid rotation (a, b): all 64 (target, prediction) pairs appear for single-element shapes
TIdx(a, i) == ((a + i - 1) % GridLen) + 1
PIdx(a, b, i) == ((a + b + 2 * (i - 1)) % GridLen) + 1

Init ==
  /\ rec = <<>>
  \* (tie: on 3-D shapes, the prediction of the whole FIRST CHANNEL equals the target -- an exactly fitted channel next to
  \* channels that are not)
  /\ \E obj \in Objectives, c \in 1..Len(Clamps), s \in Shapes, a \in Offsets, b \in Offsets, tie \in BOOLEAN :
        /\ tie => (Len(ShapeMenu[s]) = 3 /\ b \in {0, 3})
        /\ pick = [obj |-> obj, clamp |-> c, shape |-> ShapeMenu[s], a |-> a, b |-> b, tie |-> tie]

Compute ==
  /\ rec = <<>> /\ UNCHANGED pick
  /\ LET n == Count(pick.shape) G == GridOf(pick.obj)
         t == [i \in 1..n |-> G[TIdx(pick.a, i)]]
         p == [i \in 1..n |-> IF pick.tie /\ i <= pick.shape[2] * pick.shape[3] THEN t[i] ELSE G[PIdx(pick.a, pick.b, i)]]
         \* away from |.| kinks and clamp edges: the derivative clause applies
         smooth == ~pick.tie /\ \A i \in 1..n :
                      IF pick.obj \in Probabilistic THEN PIdx(pick.a, pick.b, i) \in {3, 4, 5} /\ TIdx(pick.a, i) # 1
                      ELSE t[i] # p[i]
     IN rec' = [obj |-> pick.obj, shape |-> pick.shape, n |-> n, t |-> t, p |-> p,
                clamp |-> IF Clamps[pick.clamp] = <<>> THEN <<>> ELSE <<Clamps[pick.clamp][1], Clamps[pick.clamp][2]>>,
                loss |-> Loss(pick.obj, n),
                grad |-> [i \in 1..n |-> Clamped(Grad(pick.obj, n, i), Clamps[pick.clamp])],
                dloss |-> IF pick.obj \in Differentiable /\ pick.clamp = 1 /\ smooth
                            THEN [i \in 1..n |-> DLoss(pick.obj, n, i)] ELSE <<>>]
Next == Compute
Spec == Init /\ [][Next]_vars

\* the gradient has one component per prediction; terms mention only this case's leaves
WellFormed ==
  rec = <<>> \/
    /\ Len(rec.grad) = rec.n
    /\ Leaves(rec.loss) \subseteq {"p" \o ToString(i) : i \in 1..rec.n} \cup {"t" \o ToString(i) : i \in 1..rec.n}
    /\ \A i \in 1..rec.n : Leaves(rec.grad[i]) \subseteq {"p" \o ToString(i), "t" \o ToString(i)}

Emit == rec = <<>> \/ PrintT("REPLAY " \o ToJson([group |-> "objective"] @@ rec))
=============================================================================
