---------------------------- MODULE MC_C07 ----------------------------
(***************************************************************************)
(* Case table for the activations: activation x direction x tensor rank x  *)
(* grid class, and soft-max vectors.  Grid points are described            *)
(* symbolically (k/8, +-2^e, extreme values); the harness materialises     *)
(* them as single-precision numbers.                                       *)
(***************************************************************************)
EXTENDS Activation, Json

CONSTANTS SoftLens       \* soft-max vector lengths

VARIABLES pick, rec
vars == <<pick, rec>>

Classes == {"dyadic", "pow2", "extreme"}
\* points: [k |-> "k8", v |-> k] = k/8;  [k |-> "pow2", s |-> +-1, e |-> exponent] = s * 2^e;
\*         [k |-> "max", s] = s * largest finite;  [k |-> "minnormal", s];  [k |-> "zero", s] = +-0
Points(class) ==
  CASE class = "dyadic"  -> [i \in 1..129 |-> [k |-> "k8", v |-> i - 65]]
    [] class = "pow2"    -> [i \in 1..554 |-> [k |-> "pow2", s |-> IF i <= 277 THEN 1 ELSE -1, e |-> ((i - 1) % 277) - 149]]
    [] class = "extreme" -> << [k |-> "max", s |-> 1], [k |-> "max", s |-> -1], [k |-> "minnormal", s |-> 1],
                               [k |-> "minnormal", s |-> -1], [k |-> "zero", s |-> 1], [k |-> "zero", s |-> -1] >>

\* soft-max inputs: small integers plus an exactly representable shift, and huge finite entries
\* (entries 7 and 8 have 8 and 12 elements: as 3-D tensors they get several channels, rows and columns)
SoftBases == << <<0>>, <<1, 2>>, <<-3, 0, 3>>, <<2, 2, 2, 2>>, <<-1, 4, 0, 2, -2>>, <<5, -5, 1, 0, 3, -1>>,
                <<3, -2, 1, 0, -1, 2, 4, -4>>, <<0, 1, -1, 2, -2, 3, -3, 4, -4, 5, -5, 6>>,
                \* a NEGLIGIBLE last class (its probability is far below one ulp of the others' sum): still non-negative
                <<10, 10, 10, 10, 10, 10, 10, 10, 10, 10, -100>>, <<3, 1, 4, 1, 5, -60>>, <<2, 2, 2, -90>>, <<1, 0, 2, 1, 0, 2, 1, -70>>,
                \* SATURATED: one logit dominates, the sum of the exponentials is exactly 1 (8 elements: 2 x 2 x 2 as a 3-D tensor)
                <<50, 0, 1, 2, 3, 1, 0, 2>>, <<0, 0, 0, 90>> >>
SoftShifts == {0, 8, -1024, 4096}
Huge == << [k |-> "max", s |-> 1], [k |-> "max", s |-> -1], [k |-> "pow2", s |-> 1, e |-> 100], [k |-> "pow2", s |-> -1, e |-> 100],
           [k |-> "k8", v |-> 8], [k |-> "zero", s |-> 1],
           \* three quarters of the largest finite value: DIFFERENT finite logits far beyond half the range, on the same side
           [k |-> "max34", s |-> 1], [k |-> "max34", s |-> -1] >>

Init ==
  /\ rec = <<>>
  /\ \/ \E a \in Elementwise, dir \in {"forward", "backward"}, rank \in {1, 3}, c \in Classes :
           pick = [kind |-> "elementwise", act |-> a, dir |-> dir, rank |-> rank, class |-> c]
     \/ \E n \in SoftLens, sh \in SoftShifts, rank \in {1, 3} :
           pick = [kind |-> "softmax", base |-> SoftBases[n], shift |-> sh, rank |-> rank]
     \/ \E n \in SoftLens, rot \in 0..7 :
           pick = [kind |-> "softmax-huge", entries |-> [i \in 1..n |-> Huge[((i + rot) % 8) + 1]]]

Compute ==
  /\ rec = <<>> /\ UNCHANGED pick
  /\ rec' = CASE pick.kind = "elementwise" ->
                   [kind |-> "elementwise", act |-> pick.act, dir |-> pick.dir, rank |-> pick.rank, class |-> pick.class,
                    points |-> Points(pick.class),
                    term |-> IF pick.dir = "forward" THEN Forward(pick.act) ELSE Derivative(pick.act),
                    symbolic |-> IF pick.dir = "backward" /\ pick.class = "dyadic" THEN <<SymbolicDerivative(pick.act)>> ELSE <<>>,
                    range |-> IF pick.dir = "forward" THEN Range(pick.act) ELSE DerivativeRange(pick.act),
                    kink |-> pick.dir = "backward" /\ HasKinkAtZero(pick.act)]
              [] pick.kind = "softmax" ->
                   [kind |-> "softmax", base |-> pick.base, shift |-> pick.shift, rank |-> pick.rank]
              [] pick.kind = "softmax-huge" ->
                   [kind |-> "softmax-huge", entries |-> pick.entries]
Next == Compute
Spec == Init /\ [][Next]_vars

\* the symbolic derivative only mentions x; ranges are ordered
WellFormed ==
  (rec # <<>> /\ rec.kind = "elementwise") =>
     /\ Leaves(rec.term) \subseteq {"x"}
     /\ \A i \in 1..Len(rec.symbolic) : Leaves(rec.symbolic[i]) \subseteq {"x"}

Emit == rec = <<>> \/ PrintT("REPLAY " \o ToJson([group |-> "activation"] @@ rec))
=============================================================================
