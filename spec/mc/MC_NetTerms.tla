---------------------------- MODULE MC_NetTerms ----------------------------
(***************************************************************************)
(* Case table for C01 / C02 / C11 in term mode at NETWORK level: a menu of *)
(* small networks -- multi-layer perceptrons, spatial stacks flattened     *)
(* into dense layers, feedback blocks of dense and of spatial layers       *)
(* unrolled 1..3 times -- x activation assignments drawn from the smooth   *)
(* and leaky activations.  Every case carries the forward program and the  *)
(* chain-rule gradient program of SymNet.tla.                              *)
(***************************************************************************)
EXTENDS SymNet, Json

CONSTANTS NetSel,     \* indices into Menu
          ActSel,     \* indices into ActMenus (activation assignment, cycled over the layers)
          LoopSel     \* loop counts tried for the feedback blocks

VARIABLES pick, rec
vars == <<pick, rec>>

D0(f, bias) == [kind |-> "dense", f |-> f, kh |-> 1, kw |-> 1, sh |-> 1, sw |-> 1, ph |-> 0, pw |-> 0, dh |-> 1, dw |-> 1, bias |-> bias]
S0(kind, f, kh, kw, sh, sw, ph, pw, dh, dw) ==
  [kind |-> kind, f |-> f, kh |-> kh, kw |-> kw, sh |-> sh, sw |-> sw, ph |-> ph, pw |-> pw, dh |-> dh, dw |-> dw, bias |-> FALSE]
Lay(s) == [kind |-> "layer", spec |-> s]
Fb(specs) == [kind |-> "fb", specs |-> specs]

\* activation-free menu: <<input shape, items, skip connections as <<target, source>> over the items (add accumulation)>>
Menu == <<
  \* 1: dense, block of two dense layers (one with bias), dense head
  << <<3>>, << Lay(D0(3, TRUE)), Fb(<<D0(3, TRUE), D0(3, FALSE)>>), Lay(D0(2, FALSE)) >>, {} >>,
  \* 2: convolution flattened into a perceptron
  << <<1, 4, 4>>, << Lay(S0("conv", 2, 2, 2, 1, 1, 0, 0, 1, 1)), Lay(D0(3, TRUE)), Lay(D0(2, FALSE)) >>, {} >>,
  \* 3: convolution, block of one padded convolution (shape-preserving), dense head (block output flattened)
  << <<1, 3, 3>>, << Lay(S0("conv", 1, 2, 2, 1, 1, 1, 1, 1, 1)), Fb(<<S0("conv", 1, 3, 3, 1, 1, 1, 1, 1, 1)>>), Lay(D0(2, TRUE)) >>, {} >>,
  \* 4: deconvolution (stride 2), strided / dilated convolution, dense head
  << <<1, 2, 2>>, << Lay(S0("deconv", 1, 2, 2, 2, 2, 0, 0, 1, 1)), Lay(S0("conv", 2, 2, 2, 1, 2, 0, 1, 2, 1)), Lay(D0(2, FALSE)) >>, {} >>,
  \* 5: the network starts with a block
  << <<2>>, << Fb(<<D0(2, TRUE)>>), Lay(D0(2, FALSE)) >>, {} >>,
  \* 6: a deeper perceptron with mixed bias
  << <<4>>, << Lay(D0(4, TRUE)), Lay(D0(3, FALSE)), Lay(D0(3, TRUE)), Lay(D0(2, FALSE)) >>, {} >>,
  \* 7: block of a deconvolution followed by a convolution (1x2x2 -> 1x3x3 -> 1x2x2), dense head
  << <<1, 2, 2>>, << Fb(<<S0("deconv", 1, 2, 2, 1, 1, 0, 0, 1, 1), S0("conv", 1, 2, 2, 1, 1, 0, 0, 1, 1)>>), Lay(D0(2, TRUE)) >>, {} >>,
  \* 8: deconvolution with stride 2 and padding 2 on the width axis, dense head
  << <<1, 2, 3>>, << Lay(S0("deconv", 1, 3, 3, 1, 2, 1, 2, 1, 1)), Lay(D0(2, FALSE)) >>, {} >>,
  \* 9: convolution, max-pool, perceptron
  << <<1, 4, 4>>, << Lay(S0("conv", 2, 3, 3, 1, 1, 1, 1, 1, 1)), Lay(S0("pool", 1, 2, 2, 2, 2, 0, 0, 1, 1)), Lay(D0(3, TRUE)), Lay(D0(2, FALSE)) >>, {} >>,
  \* 10: perceptron with two skip connections sharing their source, and a chain (1 -> 3, 1 -> 2, 3 -> 4 in item indices)
  << <<4>>, << Lay(D0(4, TRUE)), Lay(D0(4, FALSE)), Lay(D0(4, TRUE)), Lay(D0(4, FALSE)), Lay(D0(2, TRUE)) >>, {<<3, 1>>, <<2, 1>>, <<4, 3>>} >>,
  \* 11: a skip that regroups 1 x 4 x 4 into 4 x 2 x 2 (equal counts, different shapes)
  << <<1, 4, 4>>, << Lay(S0("conv", 4, 2, 2, 2, 2, 0, 0, 1, 1)), Lay(S0("conv", 1, 3, 3, 1, 1, 1, 1, 1, 1)), Lay(D0(2, FALSE)) >>, {<<2, 1>>} >>,
  \* 12: the U-Net pattern: the max-pool layer is the SOURCE of a skip
  << <<1, 4, 4>>, << Lay(S0("conv", 1, 3, 3, 1, 1, 1, 1, 1, 1)), Lay(S0("pool", 1, 2, 2, 2, 2, 0, 0, 1, 1)), Lay(S0("deconv", 1, 2, 2, 2, 2, 0, 0, 1, 1)),
                     Lay(S0("conv", 1, 3, 3, 1, 1, 1, 1, 1, 1)), Lay(D0(2, TRUE)) >>, {<<4, 2>>} >>
>>

ActMenus == << <<"tanh", "sigmoid", "leaky", "linear">>, <<"sigmoid", "leaky", "tanh", "tanh">>, <<"leaky", "tanh", "sigmoid", "relu">> >>

\* give every layer specification its activation, cycling through the assignment in forward order
RECURSIVE WithActs(_, _, _, _)
WithActs(items, acts, at, loops) ==
  IF items = <<>> THEN <<>>
  ELSE LET it == items[1] ActAt(k) == acts[((at + k) % Len(acts)) + 1] IN
       IF it.kind = "layer"
         THEN <<[it EXCEPT !.spec = it.spec @@ [act |-> ActAt(0)]]>> \o WithActs(Tail(items), acts, at + 1, loops)
         ELSE <<[kind |-> "fb", specs |-> [q \in 1..Len(it.specs) |-> it.specs[q] @@ [act |-> ActAt(q - 1)]], loops |-> loops]>>
              \o WithActs(Tail(items), acts, at + Len(it.specs), loops)

HasBlock(m) == \E i \in 1..Len(Menu[m][2]) : Menu[m][2][i].kind = "fb"

Init ==
  /\ rec = <<>>
  /\ \E m \in NetSel, a \in ActSel, k \in LoopSel :
        /\ (~HasBlock(m) => k = CHOOSE k0 \in LoopSel : \A k1 \in LoopSel : k0 <= k1)
        /\ pick = [net |-> m, acts |-> a, loops |-> k]

Compute ==
  /\ rec = <<>> /\ UNCHANGED pick
  /\ LET input == Menu[pick.net][1]
         items == MkItems(input, WithActs(Menu[pick.net][2], ActMenus[pick.acts], 0, pick.loops))
         un    == Unroll(items, 1)
         connect == Menu[pick.net][3]
     IN rec' = [net |-> pick.net, acts |-> pick.acts, loops |-> pick.loops, input |-> input, items |-> items,
                connect |-> connect,
                fits |-> \A i \in 1..Len(items) : ItemFits(items[i]),
                program |-> ProgramS(un, connect)]
Next == Compute
Spec == Init /\ [][Next]_vars

\* ---- structural invariants of the emitted programs ---------------------------------------------------
NamesA(u, n) == {AName(u, i) : i \in 1..n}
NamesK(u, n) == {KName(u, j) : j \in 1..n}
NamesD(u, n) == {DName(u, i) : i \in 1..n}
NamesI(u, n) == {IName(u, i) : i \in 1..n}
NamesE(u, n) == {EName(u, i) : i \in 1..n}
WellFormed ==
  rec = <<>> \/
    LET P == rec.program IN
    /\ rec.fits
    /\ P[1].nx = Prod(rec.input)
    /\ \A p \in rec.connect : p[2] < p[1] /\ P[p[1]].nx = P[p[2]].nx          \* skips join inputs of equal element count
    /\ \A u \in 1..Len(P) :
         LET L == P[u] IN
         /\ Len(L.fwd) = L.no /\ Len(L.inp) = L.nx /\ Len(L.gk) = L.nk /\ Len(L.gin) = L.nx /\ Len(L.gprev) = L.nx /\ L.no = Prod(L.out)
         /\ u > 1 => L.nx = P[u - 1].no                      \* consecutive layers fit (flattening is the identity)
         \* the input a layer processes mentions only the previous output and an EARLIER layer's processed input
         /\ \A k \in 1..L.nx : A!Leaves(L.inp[k]) \subseteq NamesA(u - 1, L.nx) \cup UNION {NamesI(s, L.nx) : s \in 1..(u - 1)}
         /\ \A n \in 1..L.no : A!Leaves(L.fwd[n]) \subseteq NamesI(u, L.nx) \cup NamesK(u, L.nk)
         /\ \A j \in 1..L.nk : A!Leaves(L.gk[j]) \subseteq NamesI(u, L.nx) \cup NamesK(u, L.nk) \cup NamesD(u, L.no)
         \* the gradient of a processed input: this layer's own part plus the parts of LATER layers that read it
         /\ \A k \in 1..L.nx : A!Leaves(L.gin[k]) \subseteq NamesI(u, L.nx) \cup NamesK(u, L.nk) \cup NamesD(u, L.no)
                                                              \cup UNION {NamesE(t, L.nx) : t \in (u + 1)..Len(P)}
         /\ \A k \in 1..L.nx : \A t \in TargetsOf(rec.connect, u) : EName(t, k) \in A!Leaves(L.gin[k])   \* no target is forgotten
         \* every parameter of the layer is used by some output, and its gradient mentions the upstream gradient
         /\ \A j \in 1..L.nk : (\E n \in 1..L.no : KName(u, j) \in A!Leaves(L.fwd[n])) /\ A!Leaves(L.gk[j]) \cap NamesD(u, L.no) # {}
\* copies of a block layer share the parameter group, the configuration and the activation
Tied ==
  rec = <<>> \/
    \A u, v \in 1..Len(rec.program) :
       rec.program[u].group = rec.program[v].group =>
          rec.program[u].cfg = rec.program[v].cfg /\ rec.program[u].act = rec.program[v].act
\* a block's repetitions fit (what it produces is what it consumes)
BlocksRepeat ==
  rec = <<>> \/
    \A u \in 2..Len(rec.program) : rec.program[u].nx = rec.program[u - 1].no

Emit == rec = <<>> \/ PrintT("REPLAY " \o ToJson([group |-> "netterm"] @@ rec))
=============================================================================
