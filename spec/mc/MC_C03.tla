---------------------------- MODULE MC_C03 ----------------------------
(***************************************************************************)
(* Slot state machine of the optimizers + emission of update histories.    *)
(*                                                                         *)
(* Three parameter slots (a dense weight matrix, its bias vector, one      *)
(* filter of a convolution) are updated in any interleaving; the step      *)
(* number is the current round (several updates per round, as learn()      *)
(* produces with several batches per epoch).  For slot isolation the state *)
(* of every slot variable is abstracted to the set of leaves it depends    *)
(* on: a step may only ever read leaves of its own slot.                   *)
(***************************************************************************)
EXTENDS Optimizer, Json

CONSTANTS MaxSteps, MaxRounds, Slots, LongRuns

VARIABLES cfg, deps, round, hist, count
vars == <<cfg, deps, round, hist, count>>

Opts(kind) ==
  CASE kind \in {"sgd", "sgdm", "adam"} -> {[decay |-> d, momentum |-> FALSE, centered |-> FALSE] : d \in BOOLEAN}
    [] kind = "adamw" -> {[decay |-> TRUE, momentum |-> FALSE, centered |-> FALSE]}
    [] kind = "rmsprop" -> {[decay |-> d, momentum |-> m, centered |-> c] : d \in BOOLEAN, m \in BOOLEAN, c \in BOOLEAN}

\* hyper-parameter values passed to create: explicit ones, zeros (to be replaced by the defaults), or explicit ones with a
\* TINY but non-zero learning rate / epsilon (2^-30, far below the single-precision machine epsilon): a tiny value is a value,
\* only an exact zero means "use the default"
\* ("zerodecay": the decay option is ON with the value 0 -- for AdamW the only way to ask for no decoupled decay; decay has
\* no default, so a zero decay is a zero decay)
Styles == {"explicit", "zeros", "tinylr", "tinyeps", "zerodecay"}
HP(kind, style) ==
  LET v(name, n, d) == IF style = "zeros" /\ name \in DOMAIN Defaults(kind) THEN <<0, 1>>
                       ELSE IF (style = "tinylr" /\ name = "lr") \/ (style = "tinyeps" /\ name = "eps") THEN <<1, 1073741824>>
                       ELSE <<n, d>> IN
  [lr |-> v("lr", 1, 16), decay |-> IF style = "zerodecay" THEN <<0, 1>> ELSE <<1, 8>>, momentum |-> v("momentum", 3, 4), dampening |-> <<1, 4>>,
   beta1 |-> v("beta1", 7, 8), beta2 |-> v("beta2", 15, 16), eps |-> v("eps", 1, 1024), alpha |-> v("alpha", 1, 2)]
EffectiveHP(kind, hp) == [name \in DOMAIN hp |-> Effective(kind, name, hp[name])]

Configs == {[kind |-> k, o |-> o, zeros |-> z] : k \in Kinds, o \in UNION {Opts(kk) : kk \in Kinds}, z \in Styles}
ValidConfigs == {c \in Configs : c.o \in Opts(c.kind)}

OwnLeaves(s) == {"w" \o ToString(s), "g" \o ToString(s)}
HyperLeaves == {"lr", "decay", "stepnr", "momentum", "dampening", "beta1", "beta2", "eps", "alpha"}

Init ==
  /\ cfg \in ValidConfigs
  /\ deps = [s \in Slots |-> [v \in StateVars(cfg.kind) \cup {"w"} |-> IF v = "w" THEN {"w" \o ToString(s)} ELSE {}]]
  /\ round = 1 /\ hist = <<>> /\ count = [s \in Slots |-> 0]

\* abstract execution of the program on dependency sets
RECURSIVE Run(_, _, _, _)
Run(P, i, env, first) ==
  IF i > Len(P) THEN env
  ELSE LET ins == P[i]
           active == ins.guard = "always" \/ (ins.guard = "first" /\ first) \/ (ins.guard = "later" /\ ~first)
           used == UNION {IF n \in DOMAIN env THEN env[n] ELSE {n} : n \in Leaves(ins.term)}
       IN Run(P, i + 1, IF active THEN (ins.target :> used) @@ env ELSE env, first)

Step(s) ==
  /\ Len(hist) < MaxSteps
  /\ LET env0 == deps[s] @@ ("g" :> {"g" \o ToString(s)})
         env1 == Run(Program(cfg.kind, cfg.o), 1, env0, round = 1)
     IN deps' = [deps EXCEPT ![s] = [v \in DOMAIN deps[s] |-> env1[v]]]
  /\ hist' = Append(hist, [slot |-> s, stepnr |-> round])
  /\ count' = [count EXCEPT ![s] = @ + 1]
  /\ UNCHANGED <<cfg, round>>

NextRound ==
  /\ round < MaxRounds /\ hist # <<>> /\ hist[Len(hist)].stepnr = round      \* at least one update per round
  /\ round' = round + 1
  /\ UNCHANGED <<cfg, deps, hist, count>>

Next == (\E s \in Slots : Step(s)) \/ NextRound
Spec == Init /\ [][Next]_vars

\* ---- properties of the model -----------------------------------------------------------
\* state kept for one slot never depends on another slot's parameters or gradients
SlotIsolation ==
  \A s \in Slots : \A v \in DOMAIN deps[s] : deps[s][v] \subseteq OwnLeaves(s) \cup HyperLeaves
ProgramsWellFormed == WellFormed(cfg.kind, cfg.o)
\* state evolves only through the slot's own step
OnlyOwnStep == [][\A s \in Slots : deps'[s] # deps[s] => (Len(hist') = Len(hist) + 1 /\ hist'[Len(hist')].slot = s)]_vars

Emit ==
  (Len(hist) = MaxSteps \/ (round = MaxRounds /\ Len(hist) >= 1 /\ FALSE)) =>
    PrintT("REPLAY " \o ToJson([group |-> "optimizer", kind |-> cfg.kind, o |-> cfg.o, zeros |-> cfg.zeros,
                                hp |-> HP(cfg.kind, cfg.zeros), eff |-> EffectiveHP(cfg.kind, HP(cfg.kind, cfg.zeros)),
                                program |-> Program(cfg.kind, cfg.o), state |-> StateVars(cfg.kind),
                                hist |-> hist, long |-> IF Len(hist) = MaxSteps /\ count[1] = MaxSteps THEN LongRuns ELSE {}]))
=============================================================================
