---------------------------- MODULE MC_Flow ----------------------------
(***************************************************************************)
(* Dataflow of skip connections (C16), loop connections (C17) and feedback *)
(* blocks (C11) on small integer networks.                                 *)
(*                                                                         *)
(*  Mode = "skip": a base network, then a behaviour of Connect(a, b) calls *)
(*     (accepted iff the target is free and the element counts agree),     *)
(*     then prediction under each of the five accumulations and, for       *)
(*     additive accumulation, the parameter gradients.                     *)
(*  Mode = "loop": a base network, Loopback(b, a, k, inskips) calls, each of*)
(*     the five accumulations; Overwrite must equal the unrolled network.  *)
(*  Mode = "fb":   a feedback block (flat or spatial, alone / after a      *)
(*     layer / before a dense layer) for every loop count, skip-flag       *)
(*     combination and accumulation.                                       *)
(***************************************************************************)
EXTENDS Network, Json

CONSTANTS Mode, NetSel, MaxConnects, MaxIter, MaxLoops, DataSeeds, Accs, CheckFD

VARIABLES net, hist, phase, cfgv
vars == <<net, hist, phase, cfgv>>

Empty(input) == [input |-> input, layers |-> <<>>, connect |-> {}, skipacc |-> "add", loops |-> {}, loopacc |-> "mean"]

RECURSIVE BuildFrom(_, _, _)
\* append the menu items `items` (sequence of [kind, hp]) to network n, seeding parameters by position
BuildFrom(n, items, k) ==
  IF k > Len(items) THEN n
  ELSE LET P == IF n.layers = <<>> THEN n.input ELSE n.layers[Len(n.layers)].out
           L == MkLayerN(items[k].kind, items[k].hp, P, k + 1)
       IN BuildFrom([n EXCEPT !.layers = Append(MarkFlatten(n.layers, items[k].kind), L)], items, k + 1)
Build(input, items) == BuildFrom(Empty(input), items, 1)

D(n, act, bias) == [kind |-> "dense", hp |-> HP(n, 1, 1, 1, 1, 0, 0, 1, 1, act, bias)]
C3(f, act)      == [kind |-> "conv",  hp |-> HP(f, 3, 3, 1, 1, 1, 1, 1, 1, act, FALSE)]          \* 3x3, padding 1: shape preserving
T3x(f, act)     == [kind |-> "deconv", hp |-> HP(f, 3, 3, 1, 1, 1, 1, 1, 1, act, FALSE)]        \* 3x3, stride 1, padding 1: shape preserving
T2(f)           == [kind |-> "deconv", hp |-> HP(f, 2, 2, 2, 2, 0, 0, 1, 1, "linear", FALSE)]   \* doubles height and width
P2              == [kind |-> "pool",  hp |-> HP(1, 2, 2, 2, 2, 0, 0, 1, 1, "linear", FALSE)]    \* halves height and width

\* ---- base networks -------------------------------------------------------------------
SkipNets == <<
  Build(<<4>>, <<D(4, "relu", TRUE), D(4, "linear", FALSE), D(4, "relu", TRUE), D(2, "linear", FALSE)>>),
  Build(<<16>>, <<D(16, "relu", FALSE), C3(1, "relu"), C3(1, "linear"), D(3, "linear", TRUE)>>),
  Build(<<1, 4, 4>>, <<C3(2, "relu"), P2, D(8, "linear", FALSE), D(2, "linear", FALSE)>>),
  Build(<<1, 3, 3>>, <<T3x(1, "linear"), C3(1, "relu"), D(9, "relu", TRUE)>>),
  \* non-square maps: rows and columns must not be confused when a flat vector is cut back into a map
  Build(<<1, 3, 5>>, <<C3(2, "relu"), C3(1, "linear"), D(3, "linear", TRUE)>>),
  \* a skip between spatial tensors of EQUAL count but different shape (1 x 4 x 4 -> 4 x 2 x 2: the source is regrouped)
  Build(<<1, 4, 4>>, <<[kind |-> "conv", hp |-> HP(4, 2, 2, 2, 2, 0, 0, 1, 1, "linear", FALSE)], C3(1, "relu"), D(2, "linear", FALSE)>>),
  \* the U-Net pattern: a max-pool layer as the SOURCE of a skip (conv, pool, up-sampling deconv, conv, dense)
  Build(<<1, 4, 4>>, <<C3(1, "linear"), P2, T2(1), C3(1, "relu"), D(2, "linear", FALSE)>>),
  \* space to depth: 1 x 4 x 4 -> 2 x 2 x 4, so a skip from the network input regroups a square map into NON-SQUARE planes
  Build(<<1, 4, 4>>, <<[kind |-> "conv", hp |-> HP(2, 2, 1, 2, 1, 0, 0, 1, 1, "linear", FALSE)], C3(1, "relu"), D(2, "linear", FALSE)>>)
>>
LoopNets == <<
  Build(<<4>>, <<D(4, "relu", TRUE), D(4, "linear", FALSE), D(4, "relu", TRUE), D(2, "linear", FALSE)>>),
  Build(<<1, 4, 4>>, <<C3(1, "relu"), C3(1, "linear"), D(3, "linear", TRUE)>>),
  Build(<<1, 3, 3>>, <<T2(1), P2, D(2, "linear", FALSE)>>),
  Build(<<1, 4, 4>>, <<C3(1, "linear"), T3x(1, "relu"), C3(1, "relu")>>),
  Build(<<1, 3, 5>>, <<C3(1, "relu"), T3x(1, "linear"), D(3, "linear", TRUE)>>),
  \* the loop STARTS with a max-pool layer and ends with the layer that is flattened for the dense head: in every iteration
  \* after the first the max-pool layer receives its input as a flat vector
  Build(<<1, 4, 4>>, <<P2, T2(1), D(2, "linear", FALSE)>>),
  \* TWO channels at the loop entry, the looped convolution flattened for the dense head: with input skips the flat output is
  \* brought back to 2 x 3 x 3 before the stored input is added
  Build(<<2, 3, 3>>, <<C3(2, "relu"), D(2, "linear", FALSE)>>)
>>

\* feedback block record from its inner items, placed after output shape P
MkBlock(items, P, loops, inskips, outskips, acc) ==
  LET inner == BuildFrom(Empty(P), items, 1).layers
      first == inner[1] last == inner[Len(inner)]
  IN [kind |-> "fb", inner |-> inner, loops |-> loops, inskips |-> inskips, outskips |-> outskips, acc |-> acc,
      in |-> first.in, out |-> last.out, flatten |-> FALSE,
      cfg |-> [kind |-> "fb", act |-> "linear", bias |-> FALSE]]

\* FbShapes: <<input shape, items before the block, block items, items after the block>>
FbShapes == <<
  << <<3>>,       <<>>,                     <<D(3, "relu", TRUE)>>,                   <<D(2, "linear", FALSE)>> >>,
  << <<1, 4, 4>>, <<>>,                     <<C3(1, "relu")>>,                        <<D(2, "linear", FALSE)>> >>,
  << <<1, 3, 3>>, <<>>,                     <<T3x(1, "linear")>>,                     <<>> >>,
  << <<1, 4, 4>>, <<C3(1, "relu")>>,        <<C3(1, "linear"), T3x(1, "relu")>>,      <<>> >>,
  << <<4>>,       <<D(4, "linear", TRUE)>>, <<D(4, "relu", FALSE), D(4, "linear", TRUE)>>, <<D(3, "relu", FALSE)>> >>,
  << <<4>>,       <<D(4, "linear", TRUE)>>, <<D(4, "relu", TRUE)>>,                         <<D(2, "linear", FALSE)>>, <<D(4, "linear", FALSE), D(4, "relu", TRUE)>> >>,
  << <<1, 4, 4>>, <<>>,                     <<C3(1, "linear")>>,                      <<D(2, "linear", TRUE)>>,  <<C3(1, "relu")>> >>,
  << <<1, 3, 5>>, <<>>,                     <<C3(1, "relu"), T3x(1, "linear")>>,      <<D(2, "linear", FALSE)>> >>,
  \* convolutions whose padding differs from their dilation (5 x 5 kernel, padding 2; 3 x 3 kernels with padding 2 /
  \* dilation 1 then padding 1 / dilation 2: 4 x 4 -> 6 x 6 -> 4 x 4)
  << <<1, 4, 4>>, <<>>, <<[kind |-> "conv", hp |-> HP(1, 5, 5, 1, 1, 2, 2, 1, 1, "relu", FALSE)]>>, <<D(2, "linear", FALSE)>> >>,
  << <<1, 4, 4>>, <<>>, <<[kind |-> "conv", hp |-> HP(1, 3, 3, 1, 1, 2, 2, 1, 1, "linear", FALSE)],
                         [kind |-> "conv", hp |-> HP(1, 3, 3, 1, 1, 1, 1, 2, 2, "relu", FALSE)]>>,        <<D(2, "linear", FALSE)>> >>
>>
FbNet(s, loops, inskips, outskips, acc) ==
  LET pre  == Build(s[1], s[2])
      P    == IF pre.layers = <<>> THEN pre.input ELSE pre.layers[Len(pre.layers)].out
      blk  == MkBlock(s[3], P, loops, inskips, outskips, acc)
      \* entries with a fifth component carry a SECOND block (its own parameters) right after the first
      mid  == IF Len(s) = 5
                THEN [pre EXCEPT !.layers = pre.layers \o <<blk, MkBlock(s[5], blk.out, loops, inskips, outskips, acc)>>]
                ELSE [pre EXCEPT !.layers = Append(pre.layers, blk)]
      \* a dense layer after a spatial block makes the block flatten its output
      flat == s[4] # <<>> /\ Len(blk.out) = 3
      mid2 == IF flat THEN [mid EXCEPT !.layers[Len(mid.layers)].flatten = TRUE] ELSE mid
  IN BuildFrom(mid2, s[4], 1)

\* ---- inputs ---------------------------------------------------------------------------------
InputOf(n, seed) ==
  IF Len(n.input) = 1 THEN T1([j \in 1..n.input[1] |-> Val(seed + 1, j) + 1], 1)
  ELSE T3([ch \in 1..n.input[1] |-> [i \in 1..n.input[2] |-> [j \in 1..n.input[3] |->
            ((((ch * 13 + i) * 17 + j) * (seed + 3)) % 7) - 2]]], 1)
OutShapeOf(n) == LET L == n.layers[Len(n.layers)] IN IF L.flatten THEN <<Count(L.out)>> ELSE L.out
UpstreamOf(n, seed) ==
  LET s == OutShapeOf(n) c == Count(s)
      v == [k \in 1..c |-> Val(seed + 2, k) + (IF Val(seed + 2, k) = 0 THEN 1 ELSE 0)]
  IN FromFlat(v, s, 1)

InCount(n, i) == Count(n.layers[i].in)

\* ---- behaviours -----------------------------------------------------------------------------------
Init ==
  /\ hist = <<>> /\ phase = "build"
  /\ CASE Mode = "skip" -> \E k \in NetSel : net = SkipNets[k] /\ cfgv = [netid |-> k]
       [] Mode = "loop" -> \E k \in NetSel : net = LoopNets[k] /\ cfgv = [netid |-> k]
       [] Mode = "fb"   -> \E k \in NetSel, loops \in 1..MaxLoops, isk \in BOOLEAN, osk \in BOOLEAN, acc \in Accs :
                              /\ acc = "multiply" => (loops <= 2 /\ Len(FbShapes[k]) = 4)   \* products of more factors leave the exact range
                              /\ net = FbNet(FbShapes[k], loops, isk, osk, acc)
                              /\ cfgv = [netid |-> k, loops |-> loops, inskips |-> isk, outskips |-> osk, acc |-> acc]

\* Connect(a, b): the input fed to layer a is combined into the input of layer b (1-based here).
\* Contract: accepted iff b is not yet the target of a connection; an accepted connection is never lost.
Connect(a, b) ==
  /\ Mode = "skip" /\ phase = "build" /\ Len(hist) < MaxConnects
  /\ a <= b /\ InCount(net, a) = InCount(net, b)
  /\ IF \E p \in net.connect : p[1] = b
       THEN /\ hist' = Append(hist, [op |-> "connect", from |-> a, to |-> b, outcome |-> "panic"])
            /\ UNCHANGED net
       ELSE /\ hist' = Append(hist, [op |-> "connect", from |-> a, to |-> b, outcome |-> "ok"])
            /\ net' = [net EXCEPT !.connect = @ \cup {<<b, a>>}]
  /\ UNCHANGED <<phase, cfgv>>

\* Loopback(b, a, k, inskips): feed the output of layer b back into layer a for k iterations.
\* Up to MaxConnects loop connections per network, declared in any order: over disjoint ranges, or -- without input
\* skips -- over NESTED or OVERLAPPING ranges (one loop per last layer: the library keys its loops by `outof`).  A loop is
\* run when the main pass reaches its last layer; the re-applications are PLAIN applications of the range (an inner loop is
\* not run again inside an outer loop's iterations).
Loopback(a, b, k, isk) ==
  /\ Mode = "loop" /\ phase = "build" /\ Len(hist) < MaxConnects
  /\ a <= b /\ net.layers[a].in = net.layers[b].out
  /\ \A lp \in net.loops : \/ b < lp.into \/ lp.outof < a
                             \/ /\ lp.outof # b
                                \* of two loops that share layers, the one run LATER (larger last layer) adds "the original
                                \* input of its first layer" only if the earlier loop's accumulation has not rewritten
                                \* that stored value (it rewrites the inputs of the layers after its first, up to the one
                                \* after its last)
                                /\ LET l1 == IF lp.outof < b THEN [into |-> lp.into, outof |-> lp.outof] ELSE [into |-> a, outof |-> b]
                                       l2into == IF lp.outof < b THEN a ELSE lp.into
                                       l2isk == IF lp.outof < b THEN isk ELSE lp.inskips
                                   IN ~l2isk \/ ~(l1.into + 1 <= l2into /\ l2into <= l1.outof + 1)
  /\ hist' = Append(hist, [op |-> "loopback", outof |-> b, into |-> a, iterations |-> k, inskips |-> isk, outcome |-> "ok"])
  /\ net' = [net EXCEPT !.loops = @ \cup {[outof |-> b, into |-> a, iterations |-> k, inskips |-> isk]}]
  /\ UNCHANGED <<phase, cfgv>>

\* A loop whose first layer is also the target of a skip connection (source s < a): the input skips of the loop then add
\* the input layer a PROCESSED, i.e. the accumulated one.
LoopWithSkip(a, b, k, s) ==
  /\ Mode = "loop" /\ phase = "build" /\ hist = <<>> /\ MaxConnects >= 2
  /\ s < a /\ a <= b /\ net.layers[a].in = net.layers[b].out /\ InCount(net, s) = InCount(net, a)
  /\ hist' = <<[op |-> "connect", from |-> s, to |-> a, outcome |-> "ok"],
               [op |-> "loopback", outof |-> b, into |-> a, iterations |-> k, inskips |-> TRUE, outcome |-> "ok"]>>
  /\ net' = [net EXCEPT !.connect = {<<a, s>>}, !.loops = {[outof |-> b, into |-> a, iterations |-> k, inskips |-> TRUE]}]
  /\ UNCHANGED <<phase, cfgv>>

Finish ==
  /\ phase = "build"
  /\ Mode = "loop" => hist # <<>>
  /\ phase' = "done"
  /\ UNCHANGED <<net, hist, cfgv>>

Next ==
  \/ \E a \in 1..Len(net.layers), b \in 1..Len(net.layers) : Connect(a, b)
  \/ \E a \in 1..Len(net.layers), b \in 1..Len(net.layers), k \in 1..MaxIter, isk \in BOOLEAN : Loopback(a, b, k, isk)
  \/ \E a \in 1..Len(net.layers), b \in 1..Len(net.layers), k \in 1..MaxIter, s \in 1..Len(net.layers) : LoopWithSkip(a, b, k, s)
  \/ Finish
Spec == Init /\ [][Next]_vars

\* ---- invariants --------------------------------------------------------------------------------------
\* an accepted connection is never lost
ConnectKept ==
  \A i \in 1..Len(hist) : (hist[i].op = "connect" /\ hist[i].outcome = "ok") => <<hist[i].to, hist[i].from>> \in net.connect

\* C17: with overwrite accumulation (and no input skips) a loop equals the plain network in which layers a..b
\* are repeated k+1 times with shared weights.
Unrolled(n, lp) ==
  LET rep == SubSeq(n.layers, lp.into, lp.outof)
      RECURSIVE Times(_)
      Times(t) == IF t = 0 THEN <<>> ELSE rep \o Times(t - 1)
  IN [n EXCEPT !.loops = {},
               !.layers = SubSeq(n.layers, 1, lp.into - 1) \o Times(lp.iterations + 1) \o SubSeq(n.layers, lp.outof + 1, Len(n.layers))]
OverwriteIsUnrolled ==
  (Mode = "loop" /\ phase = "done" /\ Cardinality(net.loops) = 1) =>
    \A lp \in net.loops : ~lp.inskips =>
      \A seed \in DataSeeds :
        Predict([net EXCEPT !.loopacc = "overwrite"], InputOf(net, seed)) = Predict(Unrolled(net, lp), InputOf(net, seed))

\* C11: without skips the block is the plain repeated application of its layer list
FbIsRepetition ==
  (Mode = "fb" /\ phase = "done" /\ ~cfgv.inskips /\ ~cfgv.outskips) =>
    \A seed \in DataSeeds :
      LET k == CHOOSE i \in 1..Len(net.layers) : net.layers[i].kind = "fb"
          B == net.layers[k]
          RECURSIVE Times(_)
          Times(t) == IF t = 0 THEN <<>> ELSE B.inner \o Times(t - 1)
          un == Times(B.loops)
          plain == [net EXCEPT !.layers = SubSeq(net.layers, 1, k - 1)
                                          \o [j \in 1..Len(un) |-> IF j = Len(un) THEN [un[j] EXCEPT !.flatten = B.flatten] ELSE un[j]]
                                          \o SubSeq(net.layers, k + 1, Len(net.layers))]
      IN Predict(net, InputOf(net, seed)) = Predict(plain, InputOf(net, seed))

\* C16: with additive accumulation every parameter gradient is the exact derivative of the resulting function
SkipGradIsDerivative ==
  (Mode = "skip" /\ phase = "done" /\ CheckFD) =>
    \A seed \in DataSeeds : GradOK([net EXCEPT !.skipacc = "add"], InputOf(net, seed), UpstreamOf(net, seed))

\* Frame condition: the loop accumulation is read only where a loop connection exists, the skip accumulation only where a
\* skip connection exists (the blocks keep their own) -- the setting that does not apply changes nothing.
OtherAccumulationIrrelevant ==
  (phase = "done" /\ Mode \in {"skip", "loop"} /\ ~CheckFD) =>
    \A seed \in DataSeeds : \A b \in Accs :
       /\ net.loops = {} => Predict([net EXCEPT !.loopacc = b], InputOf(net, seed)) = Predict(net, InputOf(net, seed))
       /\ net.connect = {} => Predict([net EXCEPT !.skipacc = b], InputOf(net, seed)) = Predict(net, InputOf(net, seed))

\* ---- emission ---------------------------------------------------------------------------------------------
LayerJson(L) ==
  IF L.kind = "fb"
    THEN [kind |-> "fb", loops |-> L.loops, inskips |-> L.inskips, outskips |-> L.outskips, acc |-> L.acc,
          inner |-> [j \in 1..Len(L.inner) |-> [kind |-> L.inner[j].kind, cfg |-> L.inner[j].cfg, params |-> L.inner[j].params,
                                                  in |-> L.inner[j].in, out |-> L.inner[j].out]]]
    ELSE [kind |-> L.kind, cfg |-> L.cfg, params |-> L.params]

EvalSkip(seed) ==
  LET X == InputOf(net, seed) G == UpstreamOf(net, seed) IN
  [seed |-> seed, x |-> X, g |-> G,
   \* (multiplicative accumulation only with a single connection: products of several leave the exact range)
   predict |-> [a \in {b \in Accs : b # "multiply" \/ Cardinality(net.connect) <= 1} |->
                  [acc |-> a, y |-> Predict([net EXCEPT !.skipacc = a], X)]],
   kinkfree |-> KinkFree([net EXCEPT !.skipacc = "add"], X),
   grads |-> IF KinkFree([net EXCEPT !.skipacc = "add"], X) THEN Backward([net EXCEPT !.skipacc = "add"], X, G).grads ELSE <<>>]
EvalLoop(seed) ==
  LET X == InputOf(net, seed) IN
  [seed |-> seed, x |-> X,
   predict |-> [a \in {b \in Accs : b # "multiply" \/ \A lp \in net.loops : lp.iterations = 1} |->
                  [acc |-> a, y |-> Predict([net EXCEPT !.loopacc = a], X)]]]
\* every feedback block replaced by its layer list repeated `loops` times (valid without skips: FbIsRepetition)
RECURSIVE UnrollFrom(_, _)
UnrollFrom(layers, k) ==
  IF k > Len(layers) THEN <<>>
  ELSE LET L == layers[k] IN
       (IF L.kind = "fb"
          THEN LET RECURSIVE Times(_)
                   Times(t) == IF t = 0 THEN <<>> ELSE L.inner \o Times(t - 1)
                   un == Times(L.loops)
               IN [j \in 1..Len(un) |-> IF j = Len(un) THEN [un[j] EXCEPT !.flatten = L.flatten] ELSE un[j]]
          ELSE <<L>>) \o UnrollFrom(layers, k + 1)
UnrollAll(n) == [n EXCEPT !.layers = UnrollFrom(n.layers, 1)]
\* how many unrolled layers each layer of the network stands for
Layout(n) == [k \in 1..Len(n.layers) |-> IF n.layers[k].kind = "fb" THEN n.layers[k].loops * Len(n.layers[k].inner) ELSE 1]

EvalFb(seed) ==
  LET X == InputOf(net, seed)
      plain == ~cfgv.inskips /\ ~cfgv.outskips
      U == UnrollAll(net)
      kf == plain /\ KinkFree(U, X)
      G == UpstreamOf(net, seed)
  IN [seed |-> seed, x |-> X, y |-> Predict(net, X), g |-> G, layout |-> Layout(net),
      kinkfree |-> kf,
      \* C01: per-copy parameter gradients of a block without internal skips = those of the unrolled network
      ugrads |-> IF kf THEN Backward(U, X, G).grads ELSE <<>>,
      ubias |-> [j \in 1..Len(U.layers) |-> U.layers[j].kind = "dense" /\ U.layers[j].cfg.bias]]

\* C01 (feedback blocks without internal skips): the gradients of the unrolled network are exact derivatives
FbGradIsDerivative ==
  (Mode = "fb" /\ phase = "done" /\ CheckFD /\ ~cfgv.inskips /\ ~cfgv.outskips) =>
    \A seed \in DataSeeds : GradOK(UnrollAll(net), InputOf(net, seed), UpstreamOf(net, seed))

Emit ==
  phase = "done" =>
    PrintT("REPLAY " \o ToJson(
      [group |-> "flow", mode |-> Mode, cfg |-> cfgv, input |-> net.input,
       layers |-> [i \in 1..Len(net.layers) |-> LayerJson(net.layers[i])],
       steps |-> hist,
       evals |-> [s \in DataSeeds |->
                    CASE Mode = "skip" -> EvalSkip(s) [] Mode = "loop" -> EvalLoop(s) [] Mode = "fb" -> EvalFb(s)]]))
=============================================================================
