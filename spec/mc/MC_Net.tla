---------------------------- MODULE MC_Net ----------------------------
(***************************************************************************)
(* Builder state machine + network forward/backward on the built network.  *)
(*   C08: announced shapes = produced shapes, flat<->spatial transitions,  *)
(*        rejection of non-square flat sizes / wrong first layer;          *)
(*   C02: a network's prediction is the composition of its layers;         *)
(*   C01: network-level gradients (reverse walk with flatten/reshape) are  *)
(*        the finite differences of the network function.                  *)
(* A behaviour adds layers from a menu (each addition accepted or          *)
(* rejected by the contract), then finishes; the finished network is       *)
(* evaluated on seeded integer data and printed as one REPLAY case.        *)
(***************************************************************************)
EXTENDS Network, Json

CONSTANTS Depth,        \* maximal number of accepted layers
          InputSel,     \* which entries of InputMenu to use as network input shapes
          MenuSel,      \* which menu entries to use (set of indices)
          FlatMax,      \* 0: use the menu; n > 0: "flat size" instance: dense layers of every size 1..n followed by 1x1 spatial layers
          DataSeeds,
          CheckFD       \* check network-level gradients against finite differences in TLC

VARIABLES net, hist, phase, rejected
vars == <<net, hist, phase, rejected>>


BaseMenu == <<
  [kind |-> "dense",  hp |-> HP(4, 1, 1, 1, 1, 0, 0, 1, 1, "relu", TRUE)],
  [kind |-> "dense",  hp |-> HP(9, 1, 1, 1, 1, 0, 0, 1, 1, "linear", FALSE)],
  [kind |-> "dense",  hp |-> HP(6, 1, 1, 1, 1, 0, 0, 1, 1, "linear", TRUE)],      \* 6 is not a perfect square
  [kind |-> "dense",  hp |-> HP(3, 1, 1, 1, 1, 0, 0, 1, 1, "relu", FALSE)],
  [kind |-> "conv",   hp |-> HP(2, 3, 3, 1, 1, 1, 1, 1, 1, "relu", FALSE)],
  [kind |-> "conv",   hp |-> HP(1, 2, 1, 2, 1, 1, 0, 1, 2, "linear", FALSE)],
  [kind |-> "conv",   hp |-> HP(2, 1, 2, 1, 2, 0, 2, 2, 1, "linear", FALSE)],
  [kind |-> "deconv", hp |-> HP(1, 2, 2, 2, 2, 0, 0, 1, 1, "linear", FALSE)],
  [kind |-> "deconv", hp |-> HP(2, 3, 2, 1, 2, 1, 0, 1, 1, "relu", FALSE)],
  [kind |-> "pool",   hp |-> HP(1, 2, 2, 2, 2, 0, 0, 1, 1, "linear", FALSE)],
  [kind |-> "pool",   hp |-> HP(1, 2, 1, 1, 2, 0, 0, 1, 1, "linear", FALSE)],
  \* 12, 13: on 1 x 5 x 5 the first pads 5 x 5 to 7 x 7 (padding 1), the second pads its 3 x 3 input to 7 x 7 as well
  \* (padding 2): the same padded size with different borders, one after the other
  [kind |-> "conv",   hp |-> HP(1, 3, 3, 2, 2, 1, 1, 1, 1, "linear", FALSE)],
  [kind |-> "conv",   hp |-> HP(1, 3, 3, 1, 1, 2, 2, 1, 1, "relu", FALSE)]
>>

FlatMenu ==
  [i \in 1..(FlatMax + 3) |->
     IF i <= FlatMax THEN [kind |-> "dense", hp |-> HP(i, 1, 1, 1, 1, 0, 0, 1, 1, "linear", FALSE)]
     ELSE [kind |-> (CASE i = FlatMax + 1 -> "conv" [] i = FlatMax + 2 -> "deconv" [] OTHER -> "pool"),
           hp |-> HP(1, 1, 1, 1, 1, 0, 0, 1, 1, "linear", FALSE)]]
Menu == IF FlatMax = 0 THEN BaseMenu ELSE FlatMenu
Sel  == IF FlatMax = 0 THEN MenuSel ELSE 1..(FlatMax + 3)

InputMenu == << <<4>>, <<6>>, <<9>>, <<16>>, <<1, 4, 4>>, <<2, 3, 5>>, <<1, 6, 6>>, <<2, 4, 3>>, <<1, 5, 5>> >>
Inputs == {InputMenu[i] : i \in InputSel}

PrevOut == IF net.layers = <<>> THEN net.input ELSE
           LET L == net.layers[Len(net.layers)] IN L.out

Init ==
  /\ \E s \in Inputs : net = [input |-> s, layers |-> <<>>, connect |-> {}, skipacc |-> "add", loops |-> {}, loopacc |-> "mean"]
  /\ hist = <<>> /\ phase = "build" /\ rejected = 0

\* Add one layer through the builder: accepted (the layer is appended with its announced shapes) or rejected.
AddLayer(m) ==
  LET item == Menu[m]
      P == PrevOut
      first == net.layers = <<>>
  IN
  /\ phase = "build" /\ Len(net.layers) < Depth
  /\ FlatMax > 0 => (IF net.layers = <<>> THEN m <= FlatMax ELSE m > FlatMax)    \* flat-size instance: dense(n), then a spatial layer
  /\ IF AcceptsInput(item.kind, P, first)
       THEN LET L0 == NewLayer(item.kind, item.hp, P)
                L  == L0 @@ [params |-> LayerParams(L0, Len(net.layers) + 2)]
            IN /\ Fits(L0.cfg)                                   \* configurations that do not fit are outside the quantifier
               /\ \A i \in 1..Len(L0.out) : L0.out[i] >= 1
               /\ net' = [net EXCEPT !.layers = Append(MarkFlatten(net.layers, item.kind), L)]
               /\ hist' = Append(hist, [op |-> "add", kind |-> item.kind, hp |-> item.hp, outcome |-> "ok",
                                        in |-> L0.in, out |-> L0.out])
               /\ UNCHANGED rejected
       ELSE /\ rejected = 0                                      \* at most one rejection per behaviour
            /\ hist' = Append(hist, [op |-> "add", kind |-> item.kind, hp |-> item.hp, outcome |-> "panic",
                                     in |-> <<>>, out |-> <<>>])
            /\ rejected' = 1
            /\ UNCHANGED net
  /\ UNCHANGED phase

Finish ==
  /\ phase = "build" /\ net.layers # <<>>
  /\ FlatMax > 0 => Len(hist) = 2
  /\ phase' = "done"
  /\ UNCHANGED <<net, hist, rejected>>

Next == (\E m \in Sel : AddLayer(m)) \/ Finish
Spec == Init /\ [][Next]_vars

\* ---- evaluation of the finished network ------------------------------------------
InputOf(n, seed) ==
  IF Len(n.input) = 1 THEN T1([j \in 1..n.input[1] |-> Val(seed + 1, j)], 1)
  ELSE T3([ch \in 1..n.input[1] |-> [i \in 1..n.input[2] |-> [j \in 1..n.input[3] |->
            ((((ch * 13 + i) * 17 + j) * (seed + 3)) % 11) - 5]]], 1)

OutShapeOf(n) == LET L == n.layers[Len(n.layers)] IN IF L.flatten THEN <<Count(L.out)>> ELSE L.out
UpstreamOf(n, seed) ==
  LET s == OutShapeOf(n) c == Count(s)
      v == [k \in 1..c |-> Val(seed + 2, k) + (IF Val(seed + 2, k) = 0 THEN 1 ELSE 0)]
  IN FromFlat(v, s, 1)

\* ---- invariants ---------------------------------------------------------------------
\* C08: the shape announced for every layer equals the shape the forward pass produces, consecutive layers fit,
\* and flattening keeps the row-major sequence.
ShapesOK ==
  phase = "done" =>
    \A seed \in DataSeeds :
      LET st == Forward(net, InputOf(net, seed)) IN
      \A i \in 1..Len(net.layers) :
        LET L == net.layers[i] IN
        /\ st.acts[i + 1].shape = (IF L.flatten THEN <<Count(L.out)>> ELSE L.out)
        /\ Count(st.ins[i].shape) = Count(L.in)
        /\ PresFrom(net, InputOf(net, seed), 1)[i].shape = L.out

\* C01 at network level: the reverse walk equals finite differences of <g, Predict> in every parameter coordinate
\* along which the ReLU / arg-max pattern of the whole network is stable (operators in Network.tla).
NetGradIsDerivative ==
  (phase = "done" /\ CheckFD) =>
    \A seed \in DataSeeds : GradOK(net, InputOf(net, seed), UpstreamOf(net, seed))

CaseOf(seed) ==
  LET X == InputOf(net, seed) G == UpstreamOf(net, seed)
      st == Forward(net, X)
      kf == KinkFree(net, X)
  IN [seed |-> seed, x |-> X, g |-> G, posts |-> Tail(st.acts), pres |-> PresFrom(net, X, 1),
      kinkfree |-> kf,
      grads |-> IF kf THEN Backward(net, X, G).grads ELSE <<>>]

Emit ==
  phase = "done" =>
    PrintT("REPLAY " \o ToJson([group |-> "net", input |-> net.input, steps |-> hist,
                                layers |-> [i \in 1..Len(net.layers) |->
                                             [kind |-> net.layers[i].kind, cfg |-> net.layers[i].cfg, in |-> net.layers[i].in,
                                              out |-> net.layers[i].out, flatten |-> net.layers[i].flatten,
                                              params |-> net.layers[i].params]],
                                evals |-> [s \in DataSeeds |-> CaseOf(s)]]))
=============================================================================
