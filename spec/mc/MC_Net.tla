---------------------------- MODULE MC_Net ----------------------------
(***************************************************************************)
(* Builder state machine + network forward/backward on the built network.  *)
(*   C08: announced shapes = produced shapes, flat<->spatial transitions,  *)
(*        rejection of non-square flat sizes / wrong first layer;          *)
(*   C02: a network's prediction is the composition of its layers;         *)
(*   C01: network-level gradients (reverse walk with flatten/reshape) are  *)
(*        the finite differences of the network function.                  *)
(* A behaviour adds layers from a menu (each addition accepted or          *)
(* rejected by the contract), then finishes; the finished network is       *)
(* evaluated on seeded integer data and printed as one REPLAY case.        *)
(***************************************************************************)
EXTENDS Network, Json

CONSTANTS Depth,        \* maximal number of accepted layers
          InputSel,     \* which entries of InputMenu to use as network input shapes
          MenuSel,      \* which menu entries to use (set of indices)
          FlatMax,      \* 0: use the menu; n > 0: "flat size" instance: dense layers of every size 1..n followed by 1x1 spatial layers
          DataSeeds,
          CheckFD       \* check network-level gradients against finite differences in TLC

VARIABLES net, hist, phase, rejected
vars == <<net, hist, phase, rejected>>

Val(seed, i) == ((seed * 7919 + i * 104729 + i * i * 31) % 7) - 3

HP(f, kh, kw, sh, sw, ph, pw, dh, dw, act, bias) ==
  [f |-> f, kh |-> kh, kw |-> kw, sh |-> sh, sw |-> sw, ph |-> ph, pw |-> pw, dh |-> dh, dw |-> dw, act |-> act, bias |-> bias]

BaseMenu == <<
  [kind |-> "dense",  hp |-> HP(4, 1, 1, 1, 1, 0, 0, 1, 1, "relu", TRUE)],
  [kind |-> "dense",  hp |-> HP(9, 1, 1, 1, 1, 0, 0, 1, 1, "linear", FALSE)],
  [kind |-> "dense",  hp |-> HP(6, 1, 1, 1, 1, 0, 0, 1, 1, "linear", TRUE)],      \* 6 is not a perfect square
  [kind |-> "dense",  hp |-> HP(3, 1, 1, 1, 1, 0, 0, 1, 1, "relu", FALSE)],
  [kind |-> "conv",   hp |-> HP(2, 3, 3, 1, 1, 1, 1, 1, 1, "relu", FALSE)],
  [kind |-> "conv",   hp |-> HP(1, 2, 1, 2, 1, 1, 0, 1, 2, "linear", FALSE)],
  [kind |-> "conv",   hp |-> HP(2, 1, 2, 1, 2, 0, 2, 2, 1, "linear", FALSE)],
  [kind |-> "deconv", hp |-> HP(1, 2, 2, 2, 2, 0, 0, 1, 1, "linear", FALSE)],
  [kind |-> "deconv", hp |-> HP(2, 3, 2, 1, 2, 1, 0, 1, 1, "relu", FALSE)],
  [kind |-> "pool",   hp |-> HP(1, 2, 2, 2, 2, 0, 0, 1, 1, "linear", FALSE)],
  [kind |-> "pool",   hp |-> HP(1, 2, 1, 1, 2, 0, 0, 1, 1, "linear", FALSE)]
>>

FlatMenu ==
  [i \in 1..(FlatMax + 3) |->
     IF i <= FlatMax THEN [kind |-> "dense", hp |-> HP(i, 1, 1, 1, 1, 0, 0, 1, 1, "linear", FALSE)]
     ELSE [kind |-> (CASE i = FlatMax + 1 -> "conv" [] i = FlatMax + 2 -> "deconv" [] OTHER -> "pool"),
           hp |-> HP(1, 1, 1, 1, 1, 0, 0, 1, 1, "linear", FALSE)]]
Menu == IF FlatMax = 0 THEN BaseMenu ELSE FlatMenu
Sel  == IF FlatMax = 0 THEN MenuSel ELSE 1..(FlatMax + 3)

InputMenu == << <<4>>, <<6>>, <<9>>, <<16>>, <<1, 4, 4>>, <<2, 3, 5>>, <<1, 6, 6>>, <<2, 4, 3>> >>
Inputs == {InputMenu[i] : i \in InputSel}

PrevOut == IF net.layers = <<>> THEN net.input ELSE
           LET L == net.layers[Len(net.layers)] IN L.out

LayerParams(L, seed) ==
  CASE L.kind \in {"conv", "deconv"} ->
         [K |-> [f \in 1..L.cfg.f |-> [ch \in 1..L.cfg.c |-> [a \in 1..L.cfg.kh |-> [b \in 1..L.cfg.kw |->
                   Val(seed, ((f*3 + ch)*5 + a)*7 + b)]]]]]
    [] L.kind = "pool"  -> [K |-> <<>>]
    [] L.kind = "dense" -> [W |-> [i \in 1..L.cfg.f |-> [j \in 1..L.cfg.c |-> Val(seed, i*11 + j)]],
                            b |-> [i \in 1..L.cfg.f |-> IF L.cfg.bias THEN Val(seed + 5, i) ELSE 0]]

Init ==
  /\ \E s \in Inputs : net = [input |-> s, layers |-> <<>>, connect |-> {}, skipacc |-> "add", loops |-> {}, loopacc |-> "mean"]
  /\ hist = <<>> /\ phase = "build" /\ rejected = 0

\* Add one layer through the builder: accepted (the layer is appended with its announced shapes) or rejected.
AddLayer(m) ==
  LET item == Menu[m]
      P == PrevOut
      first == net.layers = <<>>
  IN
  /\ phase = "build" /\ Len(net.layers) < Depth
  /\ FlatMax > 0 => (IF net.layers = <<>> THEN m <= FlatMax ELSE m > FlatMax)    \* flat-size instance: dense(n), then a spatial layer
  /\ IF AcceptsInput(item.kind, P, first)
       THEN LET L0 == NewLayer(item.kind, item.hp, P)
                L  == L0 @@ [params |-> LayerParams(L0, Len(net.layers) + 2)]
            IN /\ Fits(L0.cfg)                                   \* configurations that do not fit are outside the quantifier
               /\ \A i \in 1..Len(L0.out) : L0.out[i] >= 1
               /\ net' = [net EXCEPT !.layers = Append(MarkFlatten(net.layers, item.kind), L)]
               /\ hist' = Append(hist, [op |-> "add", kind |-> item.kind, hp |-> item.hp, outcome |-> "ok",
                                        in |-> L0.in, out |-> L0.out])
               /\ UNCHANGED rejected
       ELSE /\ rejected = 0                                      \* at most one rejection per behaviour
            /\ hist' = Append(hist, [op |-> "add", kind |-> item.kind, hp |-> item.hp, outcome |-> "panic",
                                     in |-> <<>>, out |-> <<>>])
            /\ rejected' = 1
            /\ UNCHANGED net
  /\ UNCHANGED phase

Finish ==
  /\ phase = "build" /\ net.layers # <<>>
  /\ FlatMax > 0 => Len(hist) = 2
  /\ phase' = "done"
  /\ UNCHANGED <<net, hist, rejected>>

Next == (\E m \in Sel : AddLayer(m)) \/ Finish
Spec == Init /\ [][Next]_vars

\* ---- evaluation of the finished network ------------------------------------------
InputOf(n, seed) ==
  IF Len(n.input) = 1 THEN T1([j \in 1..n.input[1] |-> Val(seed + 1, j)], 1)
  ELSE T3([ch \in 1..n.input[1] |-> [i \in 1..n.input[2] |-> [j \in 1..n.input[3] |->
            ((((ch * 13 + i) * 17 + j) * (seed + 3)) % 11) - 5]]], 1)

OutShapeOf(n) == LET L == n.layers[Len(n.layers)] IN IF L.flatten THEN <<Count(L.out)>> ELSE L.out
UpstreamOf(n, seed) ==
  LET s == OutShapeOf(n) c == Count(s)
      v == [k \in 1..c |-> Val(seed + 2, k) + (IF Val(seed + 2, k) = 0 THEN 1 ELSE 0)]
  IN FromFlat(v, s, 1)

\* No ReLU pre-activation is exactly 0 and no pool window has two equal maxima (C01/C02 quantify away from these).
KinkFree(n, X) ==
  LET st == Forward(n, X) IN
  \A i \in 1..Len(n.layers) :
    LET L == n.layers[i]
        x == IF L.kind = "dense" THEN FlatT(st.ins[i])
             ELSE IF RankT(st.ins[i]) = 1 THEN Unflat3(st.ins[i].data, L.in[1], L.in[2], L.in[3]) ELSE st.ins[i].data
    IN CASE L.kind = "pool" -> PoolTieFree(x, L.cfg)
         [] L.cfg.act = "relu" -> \A v \in {FlatR(RankOf(L.cfg), Pre(L.cfg, L.params, x))[k] :
                                              k \in 1..Count(L.out)} : v # 0
         [] OTHER -> TRUE

\* ---- invariants ---------------------------------------------------------------------
\* C08: the shape announced for every layer equals the shape the forward pass produces, consecutive layers fit,
\* and flattening keeps the row-major sequence.
ShapesOK ==
  phase = "done" =>
    \A seed \in DataSeeds :
      LET st == Forward(net, InputOf(net, seed)) IN
      \A i \in 1..Len(net.layers) :
        LET L == net.layers[i] IN
        /\ st.acts[i + 1].shape = (IF L.flatten THEN <<Count(L.out)>> ELSE L.out)
        /\ Count(st.ins[i].shape) = Count(L.in)
        /\ PresFrom(net, InputOf(net, seed), 1)[i].shape = L.out

\* C01 at network level: the reverse walk equals finite differences of <g, Predict> in every parameter coordinate
\* along which the ReLU / arg-max pattern of the whole network is stable.
Lnet(n, X, G) == LET y == Predict(n, X) IN SumF([k \in 1..Len(FlatT(y)) |-> FlatT(y)[k] * FlatT(G)[k]])
SamePattern(n1, n2, X) ==
  LET a == Forward(n1, X) b == Forward(n2, X) IN
  \A i \in 1..Len(n1.layers) :
    LET L1 == n1.layers[i] L2 == n2.layers[i]
        x1 == IF L1.kind = "dense" THEN FlatT(a.ins[i]) ELSE IF RankT(a.ins[i]) = 1 THEN Unflat3(a.ins[i].data, L1.in[1], L1.in[2], L1.in[3]) ELSE a.ins[i].data
        x2 == IF L2.kind = "dense" THEN FlatT(b.ins[i]) ELSE IF RankT(b.ins[i]) = 1 THEN Unflat3(b.ins[i].data, L2.in[1], L2.in[2], L2.in[3]) ELSE b.ins[i].data
    IN CASE L1.kind = "pool" ->
              \A ch \in 1..L1.cfg.c, oh \in 1..PoolOH(L1.cfg), ow \in 1..PoolOW(L1.cfg) :
                 \E q \in Window(L1.cfg, oh, ow) : /\ x1[ch][q[1]][q[2]] = PoolPre(x1, L1.cfg)[ch][oh][ow]
                                                   /\ x2[ch][q[1]][q[2]] = PoolPre(x2, L2.cfg)[ch][oh][ow]
         [] L1.cfg.act = "relu" ->
              LET p1 == FlatR(RankOf(L1.cfg), Pre(L1.cfg, L1.params, x1))
                  p2 == FlatR(RankOf(L2.cfg), Pre(L2.cfg, L2.params, x2))
              IN \A k \in 1..Len(p1) : (p1[k] > 0 /\ p2[k] >= 0) \/ (p1[k] < 0 /\ p2[k] <= 0)
         [] OTHER -> TRUE

Bump(n, i, P2) == [n EXCEPT !.layers[i].params = P2]
CoordNet(n, X, G, i, Pp, Pm, d) ==
  (SamePattern(n, Bump(n, i, Pp), X) /\ SamePattern(n, Bump(n, i, Pm), X)) =>
     /\ Lnet(Bump(n, i, Pp), X, G) - Lnet(n, X, G) = d
     /\ Lnet(n, X, G) - Lnet(Bump(n, i, Pm), X, G) = d

NetGradIsDerivative ==
  (phase = "done" /\ CheckFD) =>
    \A seed \in DataSeeds :
      LET X == InputOf(net, seed) G == UpstreamOf(net, seed) IN
      KinkFree(net, X) =>
        LET B == Backward(net, X, G) IN
        \A i \in 1..Len(net.layers) :
          LET L == net.layers[i] P == L.params IN
          CASE L.kind \in {"conv", "deconv"} ->
                 \A f \in 1..L.cfg.f, ch \in 1..L.cfg.c, a \in 1..L.cfg.kh, b \in 1..L.cfg.kw :
                    CoordNet(net, X, G, i, [K |-> [P.K EXCEPT ![f][ch][a][b] = @ + 1]],
                                           [K |-> [P.K EXCEPT ![f][ch][a][b] = @ - 1]], B.grads[i].dw[f][ch][a][b])
            [] L.kind = "dense" ->
                 /\ \A r \in 1..L.cfg.f, c \in 1..L.cfg.c :
                      CoordNet(net, X, G, i, [P EXCEPT !.W[r][c] = @ + 1], [P EXCEPT !.W[r][c] = @ - 1], B.grads[i].dw[r][c])
                 /\ L.cfg.bias => \A r \in 1..L.cfg.f :
                      CoordNet(net, X, G, i, [P EXCEPT !.b[r] = @ + 1], [P EXCEPT !.b[r] = @ - 1], B.grads[i].db[r])
            [] OTHER -> TRUE

CaseOf(seed) ==
  LET X == InputOf(net, seed) G == UpstreamOf(net, seed)
      st == Forward(net, X)
      kf == KinkFree(net, X)
  IN [seed |-> seed, x |-> X, g |-> G, posts |-> Tail(st.acts), pres |-> PresFrom(net, X, 1),
      kinkfree |-> kf,
      grads |-> IF kf THEN Backward(net, X, G).grads ELSE <<>>]

Emit ==
  phase = "done" =>
    PrintT("REPLAY " \o ToJson([group |-> "net", input |-> net.input, steps |-> hist,
                                layers |-> [i \in 1..Len(net.layers) |->
                                             [kind |-> net.layers[i].kind, cfg |-> net.layers[i].cfg, in |-> net.layers[i].in,
                                              out |-> net.layers[i].out, flatten |-> net.layers[i].flatten,
                                              params |-> net.layers[i].params]],
                                evals |-> [s \in DataSeeds |-> CaseOf(s)]]))
=============================================================================
