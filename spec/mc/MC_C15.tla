---------------------------- MODULE MC_C15 ----------------------------
EXTENDS ArithSM, Json
Emit == final => PrintT("REPLAY " \o ToJson([group |-> "arith", start |-> start, steps |-> hist]))
=============================================================================
