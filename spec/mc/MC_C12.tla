---------------------------- MODULE MC_C12 ----------------------------
EXTENDS ValidateSM, Json
Emit == pc = "done" =>
  PrintT("REPLAY " \o ToJson([group |-> "validate", ds |-> ds, order |-> out,
                              loss |-> MeanLoss(ds), acc |-> MeanAcc(ds), accfirst |-> MeanAccFirst(ds),
                              accnum |-> [i \in 1..ds.n |-> AccNum(ds, i)]]))
=============================================================================
