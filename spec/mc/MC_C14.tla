---------------------------- MODULE MC_C14 ----------------------------
EXTENDS ReshapeSM, Json
\* One REPLAY line per complete behaviour (all prefixes are contained in it).
Emit == (Len(hist) = Depth) =>
          PrintT("REPLAY " \o ToJson([group |-> "reshape", start |-> start, steps |-> hist]))
=============================================================================
