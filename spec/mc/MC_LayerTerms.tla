---------------------------- MODULE MC_LayerTerms ----------------------------
(***************************************************************************)
(* Case table for C01 / C02 in term mode: a menu of small layer            *)
(* configurations (asymmetric stride / padding / dilation, several         *)
(* channels and filters, dense with and without bias) x the smooth and     *)
(* leaky activations.  Every case carries the symbolic pre-activations,    *)
(* outputs and the gradients obtained by differentiating the loss term.    *)
(***************************************************************************)
EXTENDS SymLayers, Json

CONSTANTS Acts, CfgSel

VARIABLES pick, rec
vars == <<pick, rec>>

Cfg(kind, c, h, w, f, kh, kw, sh, sw, ph, pw, dh, dw, bias) ==
  [kind |-> kind, c |-> c, h |-> h, w |-> w, f |-> f, kh |-> kh, kw |-> kw, sh |-> sh, sw |-> sw,
   ph |-> ph, pw |-> pw, dh |-> dh, dw |-> dw, act |-> "linear", bias |-> bias]

Menu == <<
  Cfg("conv",   1, 3, 4, 2, 2, 2, 1, 1, 0, 0, 1, 1, FALSE),
  Cfg("conv",   2, 3, 3, 1, 2, 1, 2, 1, 1, 0, 1, 1, FALSE),
  Cfg("conv",   1, 4, 4, 1, 2, 2, 1, 2, 0, 1, 2, 1, FALSE),
  Cfg("conv",   1, 3, 5, 2, 1, 2, 1, 1, 0, 2, 1, 2, FALSE),
  Cfg("deconv", 1, 2, 3, 2, 2, 2, 1, 1, 0, 0, 1, 1, FALSE),
  Cfg("deconv", 2, 2, 2, 1, 3, 2, 2, 1, 1, 0, 1, 1, FALSE),
  Cfg("deconv", 1, 3, 2, 1, 2, 3, 1, 2, 0, 1, 1, 1, FALSE),
  Cfg("dense",  3, 1, 1, 2, 1, 1, 1, 1, 0, 0, 1, 1, TRUE),
  Cfg("dense",  4, 1, 1, 3, 1, 1, 1, 1, 0, 0, 1, 1, FALSE)
>>

Init == rec = <<>> /\ \E m \in CfgSel, a \in Acts : pick = [cfg |-> Menu[m], act |-> a]
Compute ==
  /\ rec = <<>> /\ UNCHANGED pick
  /\ Fits(pick.cfg)
  /\ rec' = [cfg |-> pick.cfg, act |-> pick.act, nx |-> NX(pick.cfg), nk |-> NK(pick.cfg), no |-> OutCount(pick.cfg),
             out |-> OutShape(pick.cfg),
             pre |-> PreT(pick.cfg), post |-> PostT(pick.cfg, pick.act),
             dx |-> GradX(pick.cfg, pick.act), dk |-> GradK(pick.cfg, pick.act)]
Next == Compute
Spec == Init /\ [][Next]_vars

\* every gradient term mentions only this layer's leaves
WellFormed ==
  rec = <<>> \/
    LET names == {"x" \o ToString(i) : i \in 1..rec.nx} \cup {"k" \o ToString(i) : i \in 1..rec.nk} \cup {"g" \o ToString(i) : i \in 1..rec.no}
    IN /\ Len(rec.dx) = rec.nx /\ Len(rec.dk) = rec.nk /\ Len(rec.pre) = rec.no
       /\ \A i \in 1..rec.nx : A!Leaves(rec.dx[i]) \subseteq names
       /\ \A j \in 1..rec.nk : A!Leaves(rec.dk[j]) \subseteq names

Emit == rec = <<>> \/ PrintT("REPLAY " \o ToJson([group |-> "layerterm"] @@ rec))
=============================================================================
