"""Per-property registry used by bin/check: which bounded TLC instances, which harness drivers and trace
specifications decide each property, with the bounds of the quick and thorough tiers."""

COMMON_ASSUMPTIONS = [
    "TLC 1.8.0 and the CommunityModules Json/IOUtils/Folds overrides are correct",
    "rustc/IEEE-754: f32 arithmetic on integers of magnitude < 2^24 is exact, so the integer specification is a bit-exact oracle",
    "the harness comparison code (harness/src/util.rs) and the add-only `verif` hooks are faithful",
]

PROPS = {}

PROPS["C14"] = {
    "level": "model_checking",
    "technique": "TLC model checking of ReshapeSM.tla + replay of every enumerated behaviour + TLC trace validation (Trace_C14)",
    "level_text": "TLC exhaustively enumerates all reshape/flatten behaviours of the tensor state machine up to the stated bounds, checks "
                  "row-major/element-count/shape invariants in every state, every behaviour is replayed step by step on real tensors (exact "
                  "comparison of shape, data dimensions and contents, refusal <=> panic), and randomized larger runs of the real code are "
                  "validated as behaviours of the specification",
    "level_note": "bounded: dims<=4, <=16 elements, 2 operations per behaviour in TLC; larger shapes (<=60 elements, 6 ops) only through sampled traces",
    "exhaustive": True,
    "rule": "TLC enumerates every behaviour of ReshapeSM (all start shapes of rank 1/3 with dims<=MaxDim and <=MaxCount elements, "
            "all reshape targets incl. unequal counts, flatten) of length Depth; each behaviour is replayed on a real Tensor with "
            "index-coded contents; a behaviour is non-trivial if it changes the shape or contains a refused reshape; distinct = distinct "
            "(start, operation sequence)",
    "mc": [{"module": "MC_C14",
            "consts": {"quick": {"MaxDim": 4, "MaxCount": 12, "Depth": 2},
                       "thorough": {"MaxDim": 4, "MaxCount": 16, "Depth": 2}},
            "workers": 8}],
    "record": [{"group": "reshape", "trace_module": "Trace_C14", "require": {"other_activity_as_meant": 12}}],
    "assumptions": COMMON_ASSUMPTIONS + ["contents are element identities 1..n (reshape never inspects values)"],
}

PROPS["C15"] = {
    "level": "model_checking",
    "exhaustive": True,
    "technique": "TLC model checking of ArithSM.tla + replay of every enumerated behaviour (integer and float mode) + TLC trace validation (Trace_C15)",
    "level_text": "TLC enumerates every behaviour of the accumulator state machine (all shapes of rank 1-4 with dims<=MaxDim plus nested lists, "
                  "matching and mismatching operands, add/sub/mul/hadamard followed by div/mean/clamp/transpose/dot/outer), checks shape "
                  "preservation, refusal<=>mismatch and clamp-interval invariants; each behaviour is replayed on real tensors with exact "
                  "comparison, and re-run with float operands against the single IEEE operation per element; randomized longer runs are validated "
                  "against the trace specification",
    "level_note": "bounded: dims<=2 (quick) / <=3 (thorough) in TLC, values in -3..3; float mode and larger shapes are sampled",
    "rule": "one case = one complete behaviour (start tensor, operation sequence ending in a terminal op); all are distinct by construction; "
            "non-trivial = at least one accepted value-changing op or one refusal",
    "mc": [{"module": "MC_C15",
            "consts": {"quick": {"MaxDim": 3, "Depth": 1, "Seeds": "{1, 2}"},
                       "thorough": {"MaxDim": 3, "Depth": 2, "Seeds": "{1, 2}"}},
            "workers": 8}],
    "record": [{"group": "arith", "trace_module": "Trace_C15", "require": {"other_activity_as_meant": 15}}],
    "assumptions": COMMON_ASSUMPTIONS + ["float mode: the harness's own `a op b` in f32 is the IEEE single-precision result"],
}

ALL_KINDS = '{"conv", "deconv", "pool", "dense"}'

def pick_from_seed(seed):
    return seed % 1000003

PROPS["C02"] = {
    "level": "model_checking",
    "technique": "TLC enumeration of the layer configuration lattice (Layers.tla defining operators) + exact replay of every case into the real layers",
    "level_text": "TLC enumerates the (kind, channels, height, width, filters, kernel, stride, padding, dilation, activation) lattice -- sampled by a "
                  "seeded linear hash in the quick tier, complete in the thorough tier -- with integer parameters and inputs, evaluates the "
                  "defining operators of Layers.tla, and every case is replayed through the real layer's forward with both input representations; "
                  "pre- and post-activations must agree exactly (f32 is exact on these integers)",
    "level_note": "bounded lattice (inputs 3..5/6, kernels 1..3, stride 1..2(3), padding 0..2, dilation 1..2, 1..2 channels/filters); Linear and ReLU "
                  "activations; values in -3..3",
    "rule": "one case = one (configuration, data seed); distinct = distinct configuration tuples replayed; every case is non-trivial (non-constant "
            "kernels and inputs)",
    "mc": [{"module": "MC_Layers",
            "consts": {"quick": {"Kinds": ALL_KINDS, "MaxHW": 5, "Stride": 31, "Pick": pick_from_seed, "DataSeeds": "{1}", "CheckFD": "FALSE"},
                       "thorough": {"Kinds": ALL_KINDS, "MaxHW": 6, "Stride": 1, "Pick": 0, "DataSeeds": "{1, 2}", "CheckFD": "FALSE"}},
            "workers": 12, "timeout": {"quick": 900, "thorough": 7200}}],
    "assumptions": COMMON_ASSUMPTIONS,
}

PROPS["C01"] = {
    "level": "model_checking",
    "technique": "TLC checks the specification's backward mechanism against exact finite differences of its forward definition on the lattice; "
                 "every case's gradients are replayed exactly into the real layers (attribution by finite differences of the real forward)",
    "level_text": "For every enumerated configuration TLC proves, coordinate by coordinate, that the specification's backward mechanism equals the "
                  "unit finite difference of <g, forward> wherever the ReLU/arg-max pattern is stable (so the difference is the derivative); the "
                  "resulting weight/bias/kernel and input gradients are compared exactly with the real layers' backward()",
    "level_note": "same lattice bounds as C02; integer data; ReLU kinks and pool ties excluded as the property states; smooth activations are "
                  "covered separately through C07 (scalar derivative) because the layer code never branches on the activation kind",
    "rule": "one case = one (configuration, data seed) with a non-zero upstream gradient; distinct = distinct configuration tuples; non-trivial = "
            "every case (gradient tensors are non-zero by construction)",
    "mc": [{"module": "MC_Layers",
            "consts": {"quick": {"Kinds": ALL_KINDS, "MaxHW": 5, "Stride": 211, "Pick": pick_from_seed, "DataSeeds": "{1}", "CheckFD": "TRUE"},
                       "thorough": {"Kinds": ALL_KINDS, "MaxHW": 5, "Stride": 7, "Pick": pick_from_seed, "DataSeeds": "{1, 2}", "CheckFD": "TRUE"}},
            "workers": 12, "timeout": {"quick": 900, "thorough": 14400}}],
    "assumptions": COMMON_ASSUMPTIONS,
}

TRAIN_ASSUME = COMMON_ASSUMPTIONS + [
    "rayon's indexed collect preserves index order (modelled as the Reduce action adding results in index order)",
    "hook events are emitted at phase boundaries on the calling thread and, for SampleDone, after the sample's result is computed; "
    "their order is the sink's own sequence counter taken under its lock",
]

def training_mc(mode, quick, thorough):
    keys = ["MaxN", "MaxB", "MaxE", "MaxWorkers", "MaxTol", "NVals", "MaxLayers"]
    q = dict(zip(keys, quick)); q["Mode"] = mode
    t = dict(zip(keys, thorough)); t["Mode"] = mode
    return {"module": "MC_Training", "consts": {"quick": q, "thorough": t}, "workers": 10,
            "timeout": {"quick": 900, "thorough": 7200}}

PROPS["C04"] = {
    "level": "model_checking",
    "technique": "TLC model checking of the training process model (Training.tla) over all task interleavings + replay of every schedule "
                 "into learn() against the implementation's own primitives + TLC validation of hook traces (Trace_Training)",
    "level_text": "TLC explores every interleaving of the per-sample tasks for all (N, B, E, workers) up to the bounds and checks that the applied "
                  "updates always equal the schedule-free reference (consecutive groups of B, last one shorter, one step per group on the "
                  "ordered sum at the pre-step weights, step number = epoch) and that every sample contributes exactly once per epoch; each "
                  "(N,B,E) schedule is replayed: real learn() on five architectures (all layer kinds, five optimizers) must equal the same "
                  "schedule executed with the implementation's own forward/loss/backward/update; hook traces of randomized real runs "
                  "(N<=40, thread pools 1..8, jitter) are validated event by event against the model",
    "level_note": "TLC bounds N<=5(7), B<=6(8), E<=2(3), workers<=2(3); numeric content abstract in the model; the replay oracle composes the "
                  "implementation's own primitives, so it decides grouping/order/step numbers, not arithmetic (covered by C01/C02/C03/C06)",
    "rule": "one case = one terminal behaviour of the model = one (N,B,E) schedule, replayed on 5 architectures; distinct = distinct (N,B,E,arch); "
            "non-trivial = all (every schedule performs at least one update)",
    "mc": [training_mc("schedule", [5, 6, 2, 2, 1, 1, 1], [7, 8, 3, 3, 1, 1, 1])],
    "record": [{"group": "training", "trace_module": "Trace_Training"}],
    "assumptions": TRAIN_ASSUME,
}

PROPS["C09"] = {
    "level": "model_checking",
    "technique": "TLC model checking of the training-flag discipline in Training.tla over all layer-kind layouts + replay into learn()/validate()/"
                 "predict() against dropout-free twins + TLC validation of hook traces with logged flag vectors",
    "level_text": "TLC enumerates all layer-kind sequences (dense/conv/deconv/maxpool/feedback) up to the bound, with and without validation, "
                  "with chunk and task interleavings, and checks that no training flag is on while validation evaluates, that flags are on "
                  "while training gradients are computed and all off after learn returns; every layout is replayed with dropout on all and on "
                  "a seeded subset of layers: per-epoch validation metrics, validate() and predict() must be bit-identical to a dropout-free "
                  "twin holding the same weights; the flag vectors logged by the hooks in randomized runs are checked by the trace specification",
    "level_note": "layer sequences up to depth 2 (quick) / 3 (thorough) plus the output layer; shape-preserving 16-element layers; dropout rate 0.5",
    "rule": "one case = one terminal behaviour = one (layout, batch, epochs, validation) configuration; replayed in two dropout variants; "
            "non-trivial = at least one layer has dropout; distinct = distinct (layout, dropout mask, b, e, validation)",
    "mc": [training_mc("flags", [1, 1, 1, 1, 1, 1, 2], [1, 1, 1, 1, 1, 1, 3])],
    "record": [{"group": "training", "trace_module": "Trace_Training"}],
    "assumptions": TRAIN_ASSUME + ["dropout masks are deterministic (fixed seed 12345 in Tensor::dropout), so twins are comparable bitwise"],
}

PROPS["C13"] = {
    "level": "model_checking",
    "exhaustive": True,
    "technique": "TLC model checking of the early-stopping rule and histories in Training.tla over all validation-loss trajectories + replay of "
                 "every trajectory into learn() through the val-loss seam + TLC validation of natural hook traces",
    "level_text": "TLC enumerates every validation-loss trajectory over NVals ordered values for all tolerances and epoch budgets (with and without "
                  "validation data) and checks the history lengths, that training stops early only when the last `tolerance` losses strictly "
                  "increase after more than `tolerance` epochs, and never runs past the first such epoch; every trajectory is replayed through "
                  "the real learn() (its own stopping code runs unmodified; only the value it sees is scripted); natural trajectories from "
                  "real runs (diverging/converging models) are validated by the trace specification using the logged loss bit patterns",
    "level_note": "trajectories over 3 (4) ordered values, budgets <= 6 (8), tolerance <= 4 (5); the seam shadows the computed validation loss",
    "rule": "one case = one complete trajectory (budget, tolerance, validation on/off, value sequence); all distinct; non-trivial = all",
    "mc": [training_mc("earlystop", [1, 1, 6, 1, 4, 3, 1], [1, 1, 8, 1, 5, 4, 1])],
    "record": [{"group": "training", "trace_module": "Trace_Training"}],
    "assumptions": TRAIN_ASSUME + ["the script_val_loss seam only replaces the value pushed/compared; pushes, comparison and return are the code's own"],
}

PROPS["C05"] = {
    "level": "model_checking",
    "technique": "TLC model checking of all task/chunk interleavings in Training.tla (ordered-sum terms) + bitwise comparison of real runs across "
                 "thread-pool sizes and jitter seeds + TLC validation of their hook traces (completion order vs reduction order)",
    "level_text": "In the model TLC explores every interleaving of task start/completion for up to 3 workers and every chunk order of validate and "
                  "checks that the reduced (ordered) sum, the update sequence and the histories are the same in all terminal states; against the "
                  "code, the same job (all layer kinds, dropout, skip/loop connections, feedback blocks with skips, five optimizers, float data, "
                  "70 evaluation inputs, 150 batched predictions) is rebuilt and run under pools of 1..64 threads with a jitter seam and all "
                  "outputs are compared bit for bit; each run's hook trace must be a behaviour of the model (any completion order, reduction in "
                  "index order)",
    "level_note": "real work-stealing schedules are sampled (the run reports how many distinct completion orders it observed and is inconclusive "
                  "with fewer than two); exhaustiveness is about the model; rayon's indexed-collect contract is assumed",
    "rule": "evaluations = real runs; a run is non-trivial if it completed and was compared with the baseline; distinct = distinct (job, threads, jitter seed)",
    "mc": [training_mc("schedule", [4, 4, 2, 3, 1, 1, 1], [6, 6, 2, 3, 1, 1, 1])],
    "record": [{"group": "threads", "trace_module": "Trace_Training", "require": {"distinct_completion_orders": 2}}],
    "assumptions": TRAIN_ASSUME,
}

PROPS["C12"] = {
    "level": "model_checking",
    "exhaustive": True,
    "technique": "TLC model checking of the chunked parallel map with ordered collection (ValidateSM.tla) and of the aggregation formulas on integer "
                 "data + exact replay into validate()/predict_batch()/predict()",
    "level_text": "TLC explores every evaluation order of the 64-element chunks for data-set sizes below, at and above the chunk size and checks that "
                  "results are collected in input order; for every data set it computes the exact mean loss and mean accuracy under both accuracy "
                  "rules (arg-max for soft-max outputs, tolerance otherwise, one and several outputs); every case is replayed through an identity "
                  "output layer (prediction = input) and compared bit for bit, predict_batch()[i] must equal predict(x_i) and the last forward "
                  "activation, and generic networks are checked against the same aggregation composed from their own predict() and objective",
    "level_note": "integer predictions/targets in -3..3, output lengths 1/2/4, tolerances 0.5 .. 3.5, AE and MSE exact; tied predictions (either single-valued "
                  "tie rule accepted) and one sample whose squared error overflows (mean loss +inf, the sample still counted); other objectives and float "
                  "data only through the composed oracle (1e-6)",
    "rule": "one case = one (size, output length, accuracy rule, tolerance, objective, seed) data set; all distinct; non-trivial = all",
    "mc": [{"module": "MC_C12",
            "consts": {"quick": {"Ns": "{1, 2, 63, 64, 65, 129}", "Lens": "{1, 2, 4}", "Seeds": "{1}"},
                       "thorough": {"Ns": "{1, 2, 3, 63, 64, 65, 127, 128, 129, 200, 257}", "Lens": "{1, 2, 4}", "Seeds": "{1, 2, 3}"}},
            "workers": 8, "require": {"validate_cases_with_tied_predictions": 8, "validate_overflowing_loss_cases": 20}}],
    "record": [{"group": "training", "trace_module": "Trace_Training"}],
    "assumptions": TRAIN_ASSUME,
}

def net_mc(quick, thorough, tiers=("quick", "thorough")):
    keys = ["Depth", "InputSel", "MenuSel", "DataSeeds", "CheckFD", "FlatMax"]
    return {"module": "MC_Net", "consts": {"quick": dict(zip(keys, quick)), "thorough": dict(zip(keys, thorough))},
            "workers": 12, "timeout": {"quick": 600, "thorough": 10800}, "tiers": tiers, "coverage": False}

ALL_MENU = "{1, 2, 3, 4, 5, 6, 7, 8, 9, 10, 11}"
# depth-3 builder behaviours over a 7-entry menu from 4 inputs (quick) / full menu, 7 inputs (thorough)
NET_MENU_QUICK = net_mc([3, "{1, 3, 5, 6}", "{1, 2, 3, 5, 6, 8, 10}", "{1}", "FALSE", 0],
                        [3, "{1, 2, 3, 4, 5, 6, 7, 8}", ALL_MENU, "{1, 2}", "FALSE", 0])
NET_FLAT = net_mc([2, "{1}", "{1}", "{1}", "FALSE", 40], [2, "{1}", "{1}", "{1}", "FALSE", 100])
# convolutions whose padded inputs have the same size but different borders, back to back (1 x 5 x 5 input)
NET_PAD = net_mc([3, "{9}", "{12, 13, 4}", "{1}", "FALSE", 0], [4, "{9}", "{12, 13, 4, 5}", "{1, 2}", "FALSE", 0])
# network-level finite-difference theorem in TLC (depth 2)
NET_FD = net_mc([2, "{1, 5}", "{1, 2, 4, 5, 6, 8, 10}", "{1}", "TRUE", 0], [2, "{1, 3, 5, 6}", ALL_MENU, "{1, 2}", "TRUE", 0])

PROPS["C08"] = {
    "level": "model_checking",
    "exhaustive": True,
    "technique": "TLC model checking of the builder state machine (Network.tla / MC_Net) + replay of every builder behaviour into the real builder, "
                 "Display, forward and backward",
    "level_text": "TLC enumerates all builder behaviours over a menu of dense/conv/deconv/max-pool configurations (non-square kernels, asymmetric "
                  "stride/padding/dilation) from flat and spatial inputs up to the depth bound, plus every flat size 1..40 (100) followed by each "
                  "spatial layer kind, and checks announced = produced shapes in the model; each behaviour is replayed: accept/reject per call "
                  "(panic = rejection), shapes announced in the Display output, dimensions of every tensor returned by forward on seeded data, "
                  "values through flat<->spatial transitions (row-major order), and gradient shapes against parameter shapes",
    "level_note": "depth <= 2 (3) over a fixed 11-entry menu; single-layer lattice shapes are covered by the C02 instance (produced_shape checks)",
    "rule": "one case = one complete builder behaviour (input shape + add sequence incl. at most one rejected call) evaluated on seeded data; "
            "distinct = distinct behaviours; non-trivial = at least one accepted layer",
    "mc": [NET_MENU_QUICK, NET_FLAT,
           {"module": "MC_Layers",
            "consts": {"quick": {"Kinds": ALL_KINDS, "MaxHW": 5, "Stride": 61, "Pick": pick_from_seed, "DataSeeds": "{1}", "CheckFD": "FALSE"},
                       "thorough": {"Kinds": ALL_KINDS, "MaxHW": 6, "Stride": 3, "Pick": pick_from_seed, "DataSeeds": "{1}", "CheckFD": "FALSE"}},
            "workers": 12, "timeout": {"quick": 900, "thorough": 7200}}],
    "assumptions": COMMON_ASSUMPTIONS + ["announced shapes are read from the `in -> out` line of each layer in the network's Display output"],
}
PROPS["C02"]["mc"].append(NET_MENU_QUICK)
PROPS["C02"]["mc"].append(NET_PAD)
PROPS["C01"]["mc"].append(NET_MENU_QUICK)
PROPS["C01"]["mc"].append(NET_PAD)
PROPS["C01"]["mc"].append(NET_FD)

def flow_mc(mode, quick, thorough):
    keys = ["NetSel", "MaxConnects", "MaxIter", "MaxLoops", "DataSeeds", "CheckFD"]
    q = dict(zip(keys, quick)); q["Mode"] = mode
    t = dict(zip(keys, thorough)); t["Mode"] = mode
    r = {"module": "MC_Flow", "consts": {"quick": q, "thorough": t}, "workers": 12, "coverage": False,
         "timeout": {"quick": 600, "thorough": 7200}}
    if mode in ("skip", "loop"):
        r["require"] = {"cases_with_distinct_accumulation_outputs": 40}
    return r

FLOW_ASSUME = COMMON_ASSUMPTIONS + [
    "values data/den with a power-of-two denominator are exact in f32; other denominators (mean over 3 tensors) are compared within 1e-5",
    "'the input that was fed to layer a' is the input layer a processed (its own accumulated input when a is itself a target)",
]

PROPS["C16"] = {
    "level": "model_checking",
    "exhaustive": True,
    "technique": "TLC model checking of Connect behaviours and skip dataflow in Network.tla (gradients checked against finite differences in the "
                 "model) + exact replay into connect()/predict()/backward",
    "level_text": "TLC enumerates every behaviour of up to MaxConnects Connect(a,b) calls (all pairs a<=b with equal element counts, incl. flat<->spatial, "
                  "a=b, shared sources, chains, already-targeted layers) on five base networks, checks that an accepted connection is never lost "
                  "and that with additive accumulation the specification's reverse walk equals finite differences of the network function; each "
                  "behaviour is replayed: accept/reject per call, predict under all five accumulations, and every parameter gradient (additive) "
                  "compared exactly",
    "level_note": "seven base networks of depth 3-5 (dense, conv, deconv, max-pool), at most 2 (3) connect calls, sparse identity-like integer weights (the run fails as vacuous unless the five accumulations give distinguishable outputs); a second "
                  "connection to an already-targeted layer must be rejected (keeping both is not representable in the code's data structure)",
    "rule": "one case = one Connect behaviour on a base network, evaluated per data seed under 5 accumulations; all distinct; non-trivial = at least one accepted connection",
    "mc": [flow_mc("skip", ["{1, 2, 3, 4, 5, 6, 7, 8}", 2, 1, 1, "{1, 2}", "FALSE"], ["{1, 2, 3, 4, 5, 6, 7, 8}", 3, 1, 1, "{1, 2, 3}", "FALSE"]),
           # the gradient theorem (finite differences in TLC) on the dense and the dense/conv network (quick) / all (thorough)
           flow_mc("skip", ["{1, 4, 7}", 2, 1, 1, "{1}", "TRUE"], ["{1, 2, 3, 4, 5, 6, 7, 8}", 2, 1, 1, "{1, 2}", "TRUE"])],
    "assumptions": FLOW_ASSUME,
}
PROPS["C17"] = {
    "level": "model_checking",
    "exhaustive": True,
    "technique": "TLC model checking of loop dataflow in Network.tla (overwrite == unrolled network as an invariant) + exact replay into "
                 "loopback()/predict() and against the real unrolled network",
    "level_text": "TLC enumerates every loop range a<=b with matching shapes on five base networks (dense, spatial with a flattened last layer, "
                  "deconv->max-pool), every iteration count up to the bound, input skips on/off, and checks in the model that overwrite "
                  "accumulation equals the plain network with the range repeated k+1 times; each case is replayed under all five accumulations "
                  "with exact comparison, and the overwrite loop is compared bitwise with a real unrolled network holding the same weights",
    "level_note": "iterations <= 2 (3); sparse identity-like integer weights (vacuity guard: the accumulations must be distinguishable); multiply only for one iteration; mean over 3 tensors compared within 1e-5, everything else exactly",
    "rule": "one case = one (network, range, iterations, input skips) evaluated under 5 accumulations; all distinct; non-trivial = all",
    "mc": [flow_mc("loop", ["{1, 2, 3, 4, 5, 6, 7}", 1, 3, 1, "{1, 2}", "FALSE"], ["{1, 2, 3, 4, 5, 6, 7}", 1, 4, 1, "{1, 2, 3}", "FALSE"]),
           # two loop connections over disjoint ranges in one network, declared in either order
           flow_mc("loop", ["{1}", 2, 2, 1, "{1}", "FALSE"], ["{1, 2, 4, 5}", 2, 2, 1, "{1, 2}", "FALSE"])],
    "assumptions": FLOW_ASSUME,
}
PROPS["C11"] = {
    "level": "model_checking",
    "exhaustive": True,
    "technique": "TLC model checking of the feedback-block dataflow in Network.tla (no-skip block == repeated layer list as an invariant) + exact "
                 "replay into feedback()/predict()",
    "level_text": "TLC enumerates five block placements (flat block before a dense layer, spatial block flattened before a dense layer, spatial "
                  "block alone, conv+deconv pair after a conv, two dense layers between dense layers) x loop counts x the four skip-flag "
                  "combinations x the five accumulations, checks that without skips the block equals the repeated layer list, and every case's "
                  "prediction is compared with the real network",
    "level_note": "loops <= 3 (4); sparse identity-like integer weights; multiply for loops <= 2; overwrite with several sources means the last source (what the statement admits)",
    "rule": "one case = one (placement, loops, inskips, outskips, accumulation) per data seed; all distinct; non-trivial = all",
    "mc": [flow_mc("fb", ["{1, 2, 3, 4, 5, 6, 7, 8, 9, 10}", 1, 1, 3, "{1, 2}", "FALSE"], ["{1, 2, 3, 4, 5, 6, 7, 8, 9, 10}", 1, 1, 4, "{1, 2, 3}", "FALSE"])],
    "assumptions": FLOW_ASSUME,
}

# C08 inside feedback blocks: the shapes the block announces for its inner layers (read from Display) follow the size formulas
PROPS["C08"]["mc"].append(flow_mc("fb", ["{2, 4, 7, 9, 10}", 1, 1, 2, "{1}", "FALSE"], ["{1, 2, 3, 4, 5, 6, 7, 8, 9, 10}", 1, 1, 3, "{1}", "FALSE"]))
# skip connections across the flat <-> spatial boundary (a spatial layer directly after a dense layer stores a flat input)
_c08_skip = flow_mc("skip", ["{2, 3, 5, 8}", 1, 1, 1, "{1}", "FALSE"], ["{1, 2, 3, 4, 5, 6, 7, 8}", 2, 1, 1, "{1}", "FALSE"])
_c08_skip.pop("require", None)
PROPS["C08"]["technique"] += (" + block and skip dataflows of MC_Flow (an accepted network never aborts on a shape disagreement) + the reshape state "
                               "machine ReshapeSM.tla (the flat <-> spatial transitions themselves)")
PROPS["C08"]["mc"].append(_c08_skip)
# the flat <-> spatial transitions themselves: Tensor::flatten / reshape / get_triple as a state machine (ReshapeSM.tla)
PROPS["C08"]["mc"].append({"module": "MC_C14", "consts": {"quick": {"MaxDim": 3, "MaxCount": 8, "Depth": 2},
                                                           "thorough": {"MaxDim": 4, "MaxCount": 12, "Depth": 2}}, "workers": 8})

PROPS["C18"] = {
    "level": "model_checking",
    "technique": "TLC model checking of an integer model of the generator's single-precision arithmetic (Random.tla) on stratified state bands + exact "
                 "replay of every record into Generator/shuffle/Tensor::random + exhaustive harness sweep of all states against the model's predicates",
    "level_text": "Random.tla models the minstd step (Schrage) and the u64->f32 rounding, ratio, index and swap sequence in 32-bit integer arithmetic; "
                  "TLC checks on the low band, the high band, a coarse grid and the predecessors of all 63 successors with ratio 1 that the raw "
                  "formula leaves the range exactly there and that the contract index is in bounds and shuffles are permutations; every record "
                  "(state, length) is replayed: value in [min,max] for 18 intervals (incl. degenerate and sub-epsilon ones), index = model, sequence = minstd, shuffle = model permutation, "
                  "64-bit seeds above the modulus, Tensor::random shapes/bounds; a sweep over generator states (every 4099th in the quick tier, all "
                  "2^31-2 in the thorough tier) checks range and bounds",
    "level_note": "TLC enumerates bands, not all 2^31 states: the full-range statement rests on the harness sweep (plain enumeration against the "
                  "specification's predicates); 64-bit seeds are sampled (10 limb patterns)",
    "rule": "one case = one (state, length) record, one shuffle, or one 64-bit seed; distinct_nontrivial counts distinct ratio-one states plus "
            "distinct state residues mod 1000 plus shuffles and seeds",
    "mc": [{"module": "MC_C18",
            "consts": {"quick": {"Band": 64, "GridStep": 16777216, "MaxLen": 16, "ShuffleLen": "{0, 1, 2, 5, 8}"},
                       "thorough": {"Band": 4096, "GridStep": 262144, "MaxLen": 64, "ShuffleLen": "{0, 1, 2, 3, 5, 8, 13, 64}"}},
            "workers": 8, "timeout": {"quick": 600, "thorough": 7200}}],
    "record": [{"group": "randomsweep"}],
    "assumptions": COMMON_ASSUMPTIONS + ["harness built with overflow-checks = true (as debug builds are): an arithmetic overflow is a panic"],
}

TERM_ASSUME = COMMON_ASSUMPTIONS + [
    "term mode: formulas are built by the specification as data and evaluated by harness/src/terms.rs with one IEEE single-precision operation "
    "(or the platform's f32 libm function) per node; comparison tolerance 1e-5 * max(1, |expected|)",
]

PROPS["C03"] = {
    "level": "model_checking",
    "technique": "TLC model checking of the optimizer slot state machine (Optimizer.tla, MC_C03) over all interleavings + replay of every update "
                 "history into create->validate->update with the specification's update programs as oracle",
    "level_text": "For all five optimizers and every combination of decay / momentum / centred, with explicit and with zero (defaulted) "
                  "hyper-parameters, TLC explores every interleaving of updates over three slots (matrix, vector, 3-D kernel) and round structures "
                  "and checks that slot state depends only on the slot's own parameter and gradients and changes only through its own step; each "
                  "history is replayed through the public API with six gradient classes (random, constant, sparse, sign-flipping, 1e-20, 1e10): "
                  "values must match the documented per-element program, be bit-identical across tensor ranks for equal slot histories, and stay "
                  "finite (including constant-gradient runs of 60 and 1300 steps per slot)",
    "level_note": "histories of 3 (4) updates over 3 slots and up to 3 rounds in TLC; accuracy beyond 1e-5 relative is not examined; the centred "
                  "variance is specified as max(v - g_avg^2, 0)",
    "rule": "one case = one (kind, options, explicit/zero hyper-parameters, update history); replayed with 6 gradient classes; all distinct; non-trivial = all",
    "mc": [{"module": "MC_C03",
            "consts": {"quick": {"MaxSteps": 3, "MaxRounds": 3, "Slots": "{1, 2, 3}", "LongRuns": "{120, 2600}"},
                       "thorough": {"MaxSteps": 4, "MaxRounds": 3, "Slots": "{1, 2, 3, 4}", "LongRuns": "{120, 2600, 10000}"}},
            "workers": 8, "timeout": {"quick": 600, "thorough": 7200}}],
    "assumptions": TERM_ASSUME,
}

PROPS["C06"] = {
    "level": "model_checking",
    "exhaustive": True,
    "technique": "TLC enumeration of the objective case table (Objective.tla: loss, documented gradient, clamp, symbolic derivative) + replay into "
                 "objective::Function::loss with term evaluation",
    "level_text": "TLC enumerates objective x gradient clamp (none / symmetric / one-sided / degenerate / excluding zero) x shape (flat and 3-D) x a boundary grid of "
                  "targets and predictions (0, eps, 1/4, 1/2, 3/4, 1-eps, 1, a subnormal; all 64 pairs for single elements, rotations for several), builds the "
                  "reported-loss term, the documented per-element gradient, its clamped form and -- for AE, MSE, BCE and KL -- the symbolic "
                  "derivative of the loss term; every case is replayed on the grid data and on seeded in-domain floats: loss and gradient "
                  "within 1e-5, gradient shape = prediction shape, components inside the clamp, gradient = derivative of the loss away from "
                  "kinks and clamp edges, loss finite",
    "level_note": "accuracy of ln near 0 beyond 1e-5 is not examined; shapes up to 2x3x1; the derivative clause is checked where the specification "
                  "marks the point as smooth",
    "rule": "one case = one (objective, clamp, shape, grid rotation); each replayed on grid data and on random floats; distinct = distinct "
            "(objective, clamp, shape, data); non-trivial = all",
    "mc": [{"module": "MC_C06",
            "consts": {"quick": {"Shapes": "{1, 2, 3, 5, 6}", "Offsets": "{0, 1, 2, 3, 4, 5, 6, 7}"},
                       "thorough": {"Shapes": "{1, 2, 3, 4, 5, 6, 7, 8}", "Offsets": "{0, 1, 2, 3, 4, 5, 6, 7}"}},
            "workers": 8, "timeout": {"quick": 600, "thorough": 3600}}],
    "assumptions": TERM_ASSUME + ["convention 0 * ln(0/p) = 0 for the KL divergence"],
}

PROPS["C07"] = {
    "level": "other",
    "technique": "TLC enumeration of the activation case table (Activation.tla: defined function, derivative, symbolic derivative, ranges) + replay into "
                 "activation::Function::{forward,backward} + harness sweep over single-precision bit patterns against the specification's terms",
    "explanation": "The specification owns each activation's defining term, its documented derivative, the derivative obtained symbolically from the "
                   "forward term, and the closed ranges; TLC only enumerates the finite case table (activation x direction x rank x grid class, "
                   "soft-max vectors with exact shifts and huge entries). The quantifier 'every finite single-precision input' is covered by the "
                   "harness enumerating bit patterns (every 4099th in the quick tier, every 13th in the thorough tier; stride 1 = all 2^32 is "
                   "available through `vharness sweep-activations <cases> 1 <out>`) and checking each against the specification-supplied term "
                   "(double-precision reference, 1e-5) and range; that part is plain enumeration with a specification-derived oracle, which is why "
                   "the level is 'other' rather than model_checking.",
    "level_text": "case table model-checked and replayed exactly (grid: k/8 for |k|<=64, +-2^e for every e in -149..127, +-max, +-min normal, +-0; both "
                  "tensor ranks; backward equal to the symbolic derivative of forward on the dyadic grid; soft-max: non-negative, sums to one, "
                  "shift-invariant, finite for huge inputs) plus a strided sweep of all bit patterns for the five element-wise activations in both directions",
    "level_note": "smooth activations are compared with a double-precision evaluation of the specification's term within 1e-5; the sweep is strided",
    "rule": "one case = one (activation, direction, rank, grid class) with all its grid points, or one soft-max vector; sweep units = (activation, direction); all distinct; non-trivial = all",
    "mc": [{"module": "MC_C07", "consts": {"quick": {"SoftLens": "{1, 2, 3, 4, 5, 6, 7, 9, 10, 11, 12, 13, 14}"}, "thorough": {"SoftLens": "{1, 2, 3, 4, 5, 6, 7, 8, 9, 10, 11, 12, 13, 14}"}},
            "workers": 4, "after": {"cmd": "sweep-activations", "arg": {"quick": 4099, "thorough": 13}}}],
    "assumptions": TERM_ASSUME + ["the double-precision libm functions exp/tanh/cosh are accurate to far better than 1e-5"],
}

PROPS["C10"] = {
    "level": "model_checking",
    "technique": "TLC model checking of the weight-tying state machine (FeedbackSM.tla) over all update histories + replay of the configuration table "
                 "into real training with bitwise comparison of all unrolled copies",
    "level_text": "TLC explores every history of per-copy updates with arbitrary (nondeterministic) gradients followed by re-coupling for all loop counts "
                  "and the four coupling accumulations and checks that all copies are equal after creation and after every history; every "
                  "(block layer list, loops, accumulation, optimizer, batch size) configuration is replayed: the block is built through the public "
                  "builder, its copies must be bit-identical at creation and after training (weights, biases, kernels), the `parameters:` line "
                  "must count one copy, and training must not panic",
    "level_note": "eleven block layer lists (dense with/without bias, conv, deconv, pairs, non-square kernels), loops <= 3, 2 training epochs on 3 samples; the coupled "
                  "VALUE is not prescribed by the property and not compared",
    "rule": "one case = one (block, loops, accumulation, optimizer, batch) configuration; all distinct; non-trivial = all (every case trains)",
    "mc": [{"module": "MC_C10",
            "consts": {"quick": {"MaxLoops": 3, "MaxSteps": 2, "Blocks": "{1, 2, 3, 4, 5, 6, 7, 8, 9, 10, 11, 12}", "Optimizers": '{"sgd", "sgd-decay", "sgdm-decay", "adam", "rmsprop"}', "Batches": "{1, 2}"},
                       "thorough": {"MaxLoops": 4, "MaxSteps": 3, "Blocks": "{1, 2, 3, 4, 5, 6, 7, 8, 9, 10, 11, 12}", "Optimizers": '{"sgd", "sgd-decay", "sgdm", "sgdm-decay", "adam", "adam-decay", "adamw", "rmsprop", "rmsprop-decay"}', "Batches": "{1, 2, 3}"}},
            "workers": 8, "timeout": {"quick": 600, "thorough": 3600}}],
    "assumptions": COMMON_ASSUMPTIONS,
}

PROPS["C01"]["mc"].append({"module": "MC_SoftmaxCE",
                           "consts": {"quick": {"Lens": "{2, 3, 4, 5}", "Seeds": "{1, 2, 3}"},
                                      "thorough": {"Lens": "{1, 2, 3, 4, 5, 6, 7}", "Seeds": "{1, 2, 3, 4, 5, 6}"}},
                           "workers": 4})
PROPS["C01"]["level_note"] += "; the soft-max/cross-entropy clause uses the symbolic derivative of -sum t ln softmax(z) (term mode, 1e-5)"

PROPS["C03"]["record"] = [{"group": "optslots", "trace_module": "Trace_Opt"}]
PROPS["C03"]["technique"] += " + TLC validation of the slot addressing of real training runs (Trace_Opt / OptSlots.tla)"
# C02 (last clause) / C09: however a learn call ends -- budget or early stop -- the network predicts as the composition of its
# layers afterwards (small early-stopping instance; the network carries dropout)
_STOP_SMALL = {"module": "MC_Training",
               "consts": {"quick": {"MaxN": 1, "MaxB": 1, "MaxE": 4, "MaxWorkers": 1, "MaxTol": 2, "NVals": 2, "MaxLayers": 1, "Mode": "earlystop"},
                          "thorough": {"MaxN": 1, "MaxB": 1, "MaxE": 5, "MaxWorkers": 1, "MaxTol": 3, "NVals": 3, "MaxLayers": 1, "Mode": "earlystop"}},
               "workers": 4}
PROPS["C02"]["mc"].append(_STOP_SMALL)
PROPS["C09"]["mc"].append(_STOP_SMALL)
# C03, histories that span several learn calls on one network (every optimizer family, incl. feedback blocks)
PROPS["C03"]["mc"].append({"module": "MC_Training",
                           "consts": {"quick": {"MaxN": 2, "MaxB": 2, "MaxE": 2, "MaxWorkers": 1, "MaxTol": 1, "NVals": 1, "MaxLayers": 1, "Mode": "schedule"},
                                      "thorough": {"MaxN": 3, "MaxB": 3, "MaxE": 3, "MaxWorkers": 1, "MaxTol": 1, "NVals": 1, "MaxLayers": 1, "Mode": "schedule"}},
                           "workers": 4})
# C04, "exactly one optimizer step per group": every parameter tensor (per layer, per filter, weights / bias) is stepped
# once per group on its own state slot -- the same recorded runs, validated against OptSlots.tla
PROPS["C04"]["record"].append({"group": "optslots", "trace_module": "Trace_Opt"})
PROPS["C04"]["technique"] += " + TLC validation of the per-tensor optimizer calls of real training runs (Trace_Opt / OptSlots.tla)"

LAYER_TERMS = {"module": "MC_LayerTerms",
               "consts": {"quick": {"Acts": '{"leaky", "sigmoid", "tanh"}', "CfgSel": "{1, 2, 3, 4, 5, 6, 7, 8, 9}"},
                          "thorough": {"Acts": '{"relu", "leaky", "sigmoid", "tanh", "linear"}', "CfgSel": "{1, 2, 3, 4, 5, 6, 7, 8, 9}"}},
               "workers": 8, "stack": "1g", "coverage": False}
PROPS["C01"]["mc"].append(LAYER_TERMS)
PROPS["C02"]["mc"].append(LAYER_TERMS)
PROPS["C01"]["level_note"] += "; smooth and leaky activations composed with the layer structure are checked in term mode on a 9-entry configuration menu (symbolic forward from the same tap formulas, gradients by the symbolic differentiator, 1e-4)"

# network-level term mode (SymNet.tla): smooth / leaky activations through whole networks incl. feedback blocks
NET_TERMS = {"module": "MC_NetTerms",
             "consts": {"quick": {"NetSel": "{1, 2, 3, 4, 5, 6, 7, 8, 9, 10, 11, 12}", "ActSel": "{1, 2}", "LoopSel": "{1, 2}"},
                        "thorough": {"NetSel": "{1, 2, 3, 4, 5, 6, 7, 8, 9, 10, 11, 12}", "ActSel": "{1, 2, 3}", "LoopSel": "{1, 2, 3}"}},
             "workers": 8, "stack": "1g", "coverage": False,
             "require": {"netterm_rounds_checked": 40, "netterm_feedback_rounds_checked": 20}}
PROPS["C01"]["mc"].append(NET_TERMS)
PROPS["C02"]["mc"].append(NET_TERMS)
PROPS["C11"]["mc"].append(NET_TERMS)
PROPS["C16"]["mc"].append(NET_TERMS)
PROPS["C16"]["level_note"] += "; additive skips (shared source, chain, regrouping between shapes, max-pool as source) with smooth activations in term mode (MC_NetTerms 10-12: forward and chain-rule gradient programs of SymNet.tla)"
PROPS["C01"]["level_note"] += "; whole networks with smooth / leaky activations (perceptrons, spatial stacks flattened into dense layers, feedback blocks of dense and spatial layers unrolled up to 3 times) are checked in term mode: forward program and chain-rule gradient program of SymNet.tla, each local derivative by the symbolic differentiator, the program itself cross-checked against central differences in double precision"
PROPS["C11"]["level_note"] += "; blocks without skips with tanh / sigmoid / leaky layers in term mode (MC_NetTerms)"

NET_TRACE = {"group": "net", "trace_module": "Trace_Net", "tlc_timeout": 1500}
for _p in ("C02", "C08", "C16", "C17", "C01", "C11"):
    PROPS[_p].setdefault("record", []).append(NET_TRACE)
    PROPS[_p]["technique"] += " + TLC validation of recorded builder/forward/backward sessions of random larger networks (Trace_Net)"

# C01, "feedback blocks without internal skips": gradients of the unrolled network (theorem checked by TLC), one and two blocks
FB_GRAD = flow_mc("fb", ["{1, 2, 5, 6, 7, 8}", 1, 1, 2, "{1, 2}", "TRUE"], ["{1, 2, 3, 4, 5, 6, 7, 8}", 1, 1, 3, "{1, 2, 3}", "TRUE"])
FB_GRAD["require"] = {"feedback_gradient_cases": 20}
PROPS["C01"]["mc"].append(FB_GRAD)

PROPS["C09"]["extra_tools"] = [{"tool": "tlapm", "file": "FlagsProof.tla",
    "theorem": "Safe: for ANY number of layers and ANY flag layout, no flag is on while validation evaluates, every flag-owning layer "
               "has its flag on while training gradients are computed, all flags are off after learn returns (abstraction of the flag "
               "actions of Training.tla, inductive invariant proved with TLAPS)"}]
PROPS["C09"]["technique"] += " + TLAPS proof of the flag discipline for unbounded depth (FlagsProof.tla)"
_ORDER = {"tool": "tlapm", "file": "OrderProof.tla",
          "theorem": "Ordered: for ANY group length, ANY number of workers and EVERY interleaving of task pick-up, completion and "
                     "reduction, the results are added in index order, each exactly once, and nothing is added before its task has "
                     "finished (abstraction of the group phase of Training.tla, inductive invariant proved with TLAPS)"}
PROPS["C18"]["extra_tools"] = [{"tool": "tlapm", "file": "SchrageProof.tla", "same_def": [["Random.tla", "NextState"]],
    "theorem": "Schrage: NextState of Random.tla equals 48271 * x mod (2^31 - 1) for EVERY state, with all intermediates below 2^31 "
               "(the operator TLC evaluates in 32-bit integers is the minstd recurrence; TLAPS, SMT back end)"}]
PROPS["C18"]["technique"] += " + TLAPS proof that the specification's overflow-free successor is the minstd recurrence for every state (SchrageProof.tla)"
PROPS["C12"]["extra_tools"] = [{"tool": "tlapm", "file": "CollectProof.tla",
    "theorem": "Ordered: for ANY number of inputs and every order in which the 64-input chunks are evaluated, the collected results are the "
               "inputs in input order, each exactly once (abstraction of ValidateSM.tla: Eval / Collect; TLAPS)"}]
PROPS["C12"]["technique"] += " + TLAPS proof of ordered collection for an unbounded number of inputs (CollectProof.tla)"
# the optimizer step itself (Optimizer.tla case table, small bounds): what "one optimizer step" means in C04
PROPS["C04"]["mc"].append({"module": "MC_C03", "consts": {"quick": {"MaxSteps": 2, "MaxRounds": 2, "Slots": "{1, 2, 3}", "LongRuns": "{}"},
                                                           "thorough": {"MaxSteps": 3, "MaxRounds": 3, "Slots": "{1, 2, 3}", "LongRuns": "{120}"}},
                           "workers": 8, "timeout": {"quick": 900, "thorough": 3600}})
PROPS["C04"]["technique"] += (" + the optimizer case table of Optimizer.tla at small bounds (what 'one optimizer step' is) + twins derived from the "
                               "specification (one-epoch SGDM = SGD, a one-loop block trains like its plain layers)")
PROPS["C04"]["extra_tools"] = [_ORDER]
PROPS["C05"]["extra_tools"] = [_ORDER]
PROPS["C04"]["technique"] += " + TLAPS proof that the reduction of a group is the ordered sum for unbounded group length and workers (OrderProof.tla)"
PROPS["C05"]["technique"] += " + TLAPS proof that the reduction of a group is the ordered sum for unbounded group length and workers (OrderProof.tla)"
PROPS["C13"]["extra_tools"] = [{"tool": "apalache", "file": "EarlyStopApa.tla",
    "args": ["--cinit=ConstInit", "--inv=HistoriesOK", "--length=17"],
    "theorem": "HistoriesOK for ALL integer validation-loss trajectories (symbolic), budgets <= 8, tolerances <= 5, with and without validation"}]
PROPS["C13"]["technique"] += " + Apalache (symbolic integer losses) on the stop rule (EarlyStopApa.tla)"

# ---- specification growth beyond the listed properties (not registered in MANIFEST.json) ----
PROPS["X01"] = {
    "level": "model_checking", "technique": "TLC case table of TensorUtil.tla + exact replay",
    "level_text": "tensor utilities beyond the listed properties: one_hot, argmax tie rule, pad3d, upsample3d, resize, get_triple, quadruple_to_vec_triple, hadamard3d, dropout mask",
    "level_note": "small shapes; the dropout mask is specified through Random.tla (seed 12345, dyadic rates)",
    "rule": "one case per utility call; all distinct",
    "mc": [{"module": "MC_X01", "consts": {"quick": {"MaxDim": 3, "Seeds": "{1, 2}"}, "thorough": {"MaxDim": 4, "Seeds": "{1, 2, 3}"}}, "workers": 4}],
    "assumptions": COMMON_ASSUMPTIONS,
}

PROPS["C10"]["extra_tools"] = [{"tool": "tlapm", "file": "TyingProof.tla",
    "theorem": "Tied: for ANY number of loops, ANY per-copy optimizer changes and ANY coupling function, all copies are equal after "
               "creation and after every update (abstraction of FeedbackSM.tla, inductive invariant proved with TLAPS)"}]
PROPS["C10"]["technique"] += " + TLAPS proof of the tying invariant for unbounded loops (TyingProof.tla)"
