"""Per-property registry used by bin/check: which bounded TLC instances, which harness drivers and trace
specifications decide each property, with the bounds of the quick and thorough tiers."""

COMMON_ASSUMPTIONS = [
    "TLC 1.8.0 and the CommunityModules Json/IOUtils/Folds overrides are correct",
    "rustc/IEEE-754: f32 arithmetic on integers of magnitude < 2^24 is exact, so the integer specification is a bit-exact oracle",
    "the harness comparison code (harness/src/util.rs) and the add-only `verif` hooks are faithful",
]

PROPS = {}

PROPS["C14"] = {
    "level": "model_checking",
    "technique": "TLC model checking of ReshapeSM.tla + replay of every enumerated behaviour + TLC trace validation (Trace_C14)",
    "level_text": "TLC exhaustively enumerates all reshape/flatten behaviours of the tensor state machine up to the stated bounds, checks "
                  "row-major/element-count/shape invariants in every state, every behaviour is replayed step by step on real tensors (exact "
                  "comparison of shape, data dimensions and contents, refusal <=> panic), and randomized larger runs of the real code are "
                  "validated as behaviours of the specification",
    "level_note": "bounded: dims<=4, <=16 elements, 2 operations per behaviour in TLC; larger shapes (<=60 elements, 6 ops) only through sampled traces",
    "exhaustive": True,
    "rule": "TLC enumerates every behaviour of ReshapeSM (all start shapes of rank 1/3 with dims<=MaxDim and <=MaxCount elements, "
            "all reshape targets incl. unequal counts, flatten) of length Depth; each behaviour is replayed on a real Tensor with "
            "index-coded contents; a behaviour is non-trivial if it changes the shape or contains a refused reshape; distinct = distinct "
            "(start, operation sequence)",
    "mc": [{"module": "MC_C14",
            "consts": {"quick": {"MaxDim": 3, "MaxCount": 8, "Depth": 2},
                       "thorough": {"MaxDim": 4, "MaxCount": 16, "Depth": 2}},
            "workers": 8}],
    "record": [{"group": "reshape", "trace_module": "Trace_C14"}],
    "assumptions": COMMON_ASSUMPTIONS + ["contents are element identities 1..n (reshape never inspects values)"],
}
