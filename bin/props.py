"""Per-property registry used by bin/check: which bounded TLC instances, which harness drivers and trace
specifications decide each property, with the bounds of the quick and thorough tiers."""

COMMON_ASSUMPTIONS = [
    "TLC 1.8.0 and the CommunityModules Json/IOUtils/Folds overrides are correct",
    "rustc/IEEE-754: f32 arithmetic on integers of magnitude < 2^24 is exact, so the integer specification is a bit-exact oracle",
    "the harness comparison code (harness/src/util.rs) and the add-only `verif` hooks are faithful",
]

PROPS = {}

PROPS["C14"] = {
    "level": "model_checking",
    "technique": "TLC model checking of ReshapeSM.tla + replay of every enumerated behaviour + TLC trace validation (Trace_C14)",
    "level_text": "TLC exhaustively enumerates all reshape/flatten behaviours of the tensor state machine up to the stated bounds, checks "
                  "row-major/element-count/shape invariants in every state, every behaviour is replayed step by step on real tensors (exact "
                  "comparison of shape, data dimensions and contents, refusal <=> panic), and randomized larger runs of the real code are "
                  "validated as behaviours of the specification",
    "level_note": "bounded: dims<=4, <=16 elements, 2 operations per behaviour in TLC; larger shapes (<=60 elements, 6 ops) only through sampled traces",
    "exhaustive": True,
    "rule": "TLC enumerates every behaviour of ReshapeSM (all start shapes of rank 1/3 with dims<=MaxDim and <=MaxCount elements, "
            "all reshape targets incl. unequal counts, flatten) of length Depth; each behaviour is replayed on a real Tensor with "
            "index-coded contents; a behaviour is non-trivial if it changes the shape or contains a refused reshape; distinct = distinct "
            "(start, operation sequence)",
    "mc": [{"module": "MC_C14",
            "consts": {"quick": {"MaxDim": 3, "MaxCount": 8, "Depth": 2},
                       "thorough": {"MaxDim": 4, "MaxCount": 16, "Depth": 2}},
            "workers": 8}],
    "record": [{"group": "reshape", "trace_module": "Trace_C14"}],
    "assumptions": COMMON_ASSUMPTIONS + ["contents are element identities 1..n (reshape never inspects values)"],
}

PROPS["C15"] = {
    "level": "model_checking",
    "exhaustive": True,
    "technique": "TLC model checking of ArithSM.tla + replay of every enumerated behaviour (integer and float mode) + TLC trace validation (Trace_C15)",
    "level_text": "TLC enumerates every behaviour of the accumulator state machine (all shapes of rank 1-4 with dims<=MaxDim plus nested lists, "
                  "matching and mismatching operands, add/sub/mul/hadamard followed by div/mean/clamp/transpose/dot/outer), checks shape "
                  "preservation, refusal<=>mismatch and clamp-interval invariants; each behaviour is replayed on real tensors with exact "
                  "comparison, and re-run with float operands against the single IEEE operation per element; randomized longer runs are validated "
                  "against the trace specification",
    "level_note": "bounded: dims<=2 (quick) / <=3 (thorough) in TLC, values in -3..3; float mode and larger shapes are sampled",
    "rule": "one case = one complete behaviour (start tensor, operation sequence ending in a terminal op); all are distinct by construction; "
            "non-trivial = at least one accepted value-changing op or one refusal",
    "mc": [{"module": "MC_C15",
            "consts": {"quick": {"MaxDim": 2, "Depth": 1, "Seeds": "{1, 2}"},
                       "thorough": {"MaxDim": 2, "Depth": 2, "Seeds": "{1, 2, 3}"}},
            "workers": 8}],
    "record": [{"group": "arith", "trace_module": "Trace_C15"}],
    "assumptions": COMMON_ASSUMPTIONS + ["float mode: the harness's own `a op b` in f32 is the IEEE single-precision result"],
}

ALL_KINDS = '{"conv", "deconv", "pool", "dense"}'

def pick_from_seed(seed):
    return seed % 1000003

PROPS["C02"] = {
    "level": "model_checking",
    "technique": "TLC enumeration of the layer configuration lattice (Layers.tla defining operators) + exact replay of every case into the real layers",
    "level_text": "TLC enumerates the (kind, channels, height, width, filters, kernel, stride, padding, dilation, activation) lattice -- sampled by a "
                  "seeded linear hash in the quick tier, complete in the thorough tier -- with integer parameters and inputs, evaluates the "
                  "defining operators of Layers.tla, and every case is replayed through the real layer's forward with both input representations; "
                  "pre- and post-activations must agree exactly (f32 is exact on these integers)",
    "level_note": "bounded lattice (inputs 3..5/6, kernels 1..3, stride 1..2(3), padding 0..2, dilation 1..2, 1..2 channels/filters); Linear and ReLU "
                  "activations; values in -3..3",
    "rule": "one case = one (configuration, data seed); distinct = distinct configuration tuples replayed; every case is non-trivial (non-constant "
            "kernels and inputs)",
    "mc": [{"module": "MC_Layers",
            "consts": {"quick": {"Kinds": ALL_KINDS, "MaxHW": 5, "Stride": 31, "Pick": pick_from_seed, "DataSeeds": "{1}", "CheckFD": "FALSE"},
                       "thorough": {"Kinds": ALL_KINDS, "MaxHW": 6, "Stride": 1, "Pick": 0, "DataSeeds": "{1, 2}", "CheckFD": "FALSE"}},
            "workers": 12, "timeout": {"quick": 900, "thorough": 7200}}],
    "assumptions": COMMON_ASSUMPTIONS,
}

PROPS["C01"] = {
    "level": "model_checking",
    "technique": "TLC checks the specification's backward mechanism against exact finite differences of its forward definition on the lattice; "
                 "every case's gradients are replayed exactly into the real layers (attribution by finite differences of the real forward)",
    "level_text": "For every enumerated configuration TLC proves, coordinate by coordinate, that the specification's backward mechanism equals the "
                  "unit finite difference of <g, forward> wherever the ReLU/arg-max pattern is stable (so the difference is the derivative); the "
                  "resulting weight/bias/kernel and input gradients are compared exactly with the real layers' backward()",
    "level_note": "same lattice bounds as C02; integer data; ReLU kinks and pool ties excluded as the property states; smooth activations are "
                  "covered separately through C07 (scalar derivative) because the layer code never branches on the activation kind",
    "rule": "one case = one (configuration, data seed) with a non-zero upstream gradient; distinct = distinct configuration tuples; non-trivial = "
            "every case (gradient tensors are non-zero by construction)",
    "mc": [{"module": "MC_Layers",
            "consts": {"quick": {"Kinds": ALL_KINDS, "MaxHW": 5, "Stride": 211, "Pick": pick_from_seed, "DataSeeds": "{1}", "CheckFD": "TRUE"},
                       "thorough": {"Kinds": ALL_KINDS, "MaxHW": 5, "Stride": 7, "Pick": pick_from_seed, "DataSeeds": "{1, 2}", "CheckFD": "TRUE"}},
            "workers": 12, "timeout": {"quick": 900, "thorough": 14400}}],
    "assumptions": COMMON_ASSUMPTIONS,
}
